"""Shared machinery of /verif/bin/check: builds, proof audit, L1 runs, verdicts, evidence."""
import concurrent.futures as cf
import json
import os
import re
import subprocess
import sys
import time

# relocatable: a snapshot of /verif (vp run) works on its own files; VERIF_REPO selects another copy of the repository
VERIF = os.environ.get('VERIF_ROOT') or os.path.dirname(os.path.dirname(os.path.abspath(__file__)))
REPO = os.environ.get('VERIF_REPO') or os.environ.get('VP_RUN_REPO') or '/repo'
LEAN = f'{VERIF}/lean'
HARNESS = f'{VERIF}/harness'
WORK = f'{VERIF}/work'
# Build output of the Rust side is keyed by the *content* of the repository's sources (and by the copy's path): cargo's
# freshness check compares mtimes, so restoring an older file after a change (mtime-preserving copy) would keep the build
# of the changed tree; and two copies alternating in one target dir keep stale uplifted artifacts.
def _src_hash():
    import hashlib
    h = hashlib.sha1()
    root = f'{REPO}/derive-ex'
    for dp, dn, fn in os.walk(root):
        dn[:] = sorted(d for d in dn if d != 'target')
        for f in sorted(fn):
            if f.endswith(('.rs', '.toml', '.lock')):
                p = os.path.join(dp, f)
                h.update(os.path.relpath(p, root).encode())
                try:
                    h.update(open(p, 'rb').read())
                except OSError:
                    pass
    for f in ('Cargo.toml', 'Cargo.lock'):
        try:
            h.update(open(f'{REPO}/{f}', 'rb').read())
        except OSError:
            pass
    return h.hexdigest()[:12]


TSUF = ('' if REPO == '/repo' else '-' + re.sub(r'[^A-Za-z0-9]', '_', REPO)) + '-' + _src_hash()
TDIR = f'{WORK}/target{TSUF}'
DRV = f'{LEAN}/.lake/build/bin/drv'
XCHECK = f'{TDIR}/debug/xcheck'
NPROC = min(16, os.cpu_count() or 4)
ALLOWED_AXIOMS = {'propext', 'Classical.choice', 'Quot.sound'}
ENV = dict(os.environ, CARGO_NET_OFFLINE='true', CARGO_TARGET_DIR=TDIR)


def sh(cmd, cwd=None, timeout=None, check=False, env=None):
    r = subprocess.run(cmd, shell=isinstance(cmd, str), cwd=cwd, capture_output=True, text=True,
                       timeout=timeout, env=env or ENV)
    if check and r.returncode != 0:
        raise RuntimeError(f'command failed ({r.returncode}): {cmd}\n{r.stdout[-4000:]}\n{r.stderr[-4000:]}')
    return r


class Build:
    """Builds everything a check needs from the current /repo working tree."""

    def __init__(self):
        self.lean_ok = None
        self.lean_log = ''
        self.harness_ok = None
        self.harness_log = ''

    def lean(self, targets=('DeriveExModel', 'drv')):
        os.makedirs(WORK, exist_ok=True)
        r = sh(['lake', 'build', *targets], cwd=LEAN, timeout=1800)
        self.lean_ok = r.returncode == 0
        self.lean_log = (r.stdout + r.stderr)[-6000:]
        return self.lean_ok

    def harness(self):
        _prune_targets()
        hdir = HARNESS
        if REPO != '/repo':
            # the harness names the repository by path: build a copy that names this one
            hdir = f'{WORK}/harness-reloc'
            sh(f'rm -rf {hdir} && mkdir -p {WORK} && cp -r {HARNESS} {hdir}', check=True)
            ct = f'{hdir}/dexlib/Cargo.toml'
            txt = open(ct).read().replace('/repo/derive-ex/src/lib.rs', f'{REPO}/derive-ex/src/lib.rs')
            open(ct, 'w').write(txt)
        r = sh(['cargo', 'build', '--offline', '-q'], cwd=hdir, timeout=1800)
        self.harness_ok = r.returncode == 0
        self.harness_log = (r.stdout + r.stderr)[-6000:]
        return self.harness_ok


def _prune_targets(keep=3):
    """remove all but the most recently used build directories (one per source state)"""
    import glob
    import shutil
    for pat in ('target-*', 'pm-target-*'):
        ds = sorted(glob.glob(f'{WORK}/{pat}'), key=lambda d: os.path.getmtime(d), reverse=True)
        cur = TDIR if pat == 'target-*' else f'{WORK}/pm-target{TSUF}'
        for d in [d for d in ds if d != cur][keep:]:
            shutil.rmtree(d, ignore_errors=True)
    for d in (TDIR, f'{WORK}/pm-target{TSUF}'):
        if os.path.isdir(d):
            os.utime(d, None)


def regenerate_tables():
    """T: finite tables extracted from the real expander, written as a Lean file that Props/Tables.lean re-proves."""
    r = sh([XCHECK, 'tables'], timeout=600)
    path = f'{LEAN}/DeriveExModel/Generated/Tables.lean'
    if r.returncode != 0 or 'namespace DX.Generated' not in r.stdout:
        return False
    old = open(path).read() if os.path.exists(path) else ''
    if old != r.stdout:
        open(path, 'w').write(r.stdout)
    regenerate_doc_tables()
    regenerate_quote_idents()
    return True


def regenerate_quote_idents():
    """Q: the identifiers the expander writes, read off the templates of its source text (bin/quote_idents.py) and written
    as a Lean file; Props/QuoteIdents.lean proves them admissible for the hygiene theorem."""
    r = sh([sys.executable, f'{VERIF}/bin/quote_idents.py', REPO], timeout=120)
    path = f'{LEAN}/DeriveExModel/Generated/QuoteIdents.lean'
    if r.returncode != 0 or 'namespace DX.Generated' not in r.stdout:
        return False
    old = open(path).read() if os.path.exists(path) else ''
    if old != r.stdout:
        open(path, 'w').write(r.stdout)
    return True


def _md_tables(path):
    """every markdown table of a file: list of (header cells, rows of cells)"""
    tabs, cur = [], None
    for line in open(path, encoding='utf-8'):
        line = line.rstrip('\n')
        if line.startswith('|'):
            cells = [c.strip() for c in line.strip().strip('|').split('|')]
            if cur is None:
                cur = [cells]
            else:
                cur.append(cells)
        else:
            if cur:
                tabs.append(cur)
            cur = None
    if cur:
        tabs.append(cur)
    out = []
    for t in tabs:
        rows = [r for r in t[1:] if not all(set(c) <= set('-: ') for c in r)]
        out.append((t[0], rows))
    return out


def regenerate_doc_tables():
    """D: the tables of doc/derive_ex.md that the specification restates, parsed from the documentation on every run and
    written as a Lean file; Props/DocTables.lean proves the specification (Spec/*.lean) equal to them."""
    path = f'{REPO}/doc/derive_ex.md'
    attr_trait, arg_place, levels = [], [], []
    try:
        tabs = _md_tables(path)
    except OSError:
        tabs = []
    attrs = ['ord', 'partial_ord', 'eq', 'partial_eq', 'hash']
    ops = ['Ord', 'PartialOrd', 'Eq', 'PartialEq', 'Hash']
    for head, rows in tabs:
        h = [c.strip('`') for c in head]
        if h[1:] == ops:
            for r in rows:
                m = re.match(r'`#\[(\w+)\(\.\.\.\)\]`', r[0])
                if m and m.group(1) in attrs:
                    for j, c in enumerate(r[1:6]):
                        attr_trait.append((attrs.index(m.group(1)), j, '✔' in c))
        elif h[:5] == ['argument', 'struct', 'enum', 'variant', 'field'] and '#[ord]' in h:
            names = ['ignore', 'reverse', 'by', 'key', 'bound']
            for r in rows:
                m = re.search(r'`(\w+)', r[0])
                if m and m.group(1) in names:
                    for j in range(4):
                        arg_place.append((names.index(m.group(1)), j, '✔' in r[1 + j]))
        elif len(h) == 4 and h[1:] == ['struct, enum', 'variant', 'field'] and rows and 'trait_name(bound' in rows[0][0]:
            for i, r in enumerate(rows[:3]):
                for j in range(3):
                    try:
                        levels.append((i, j, int(r[1 + j])))
                    except ValueError:
                        pass
    def lst(xs, f):
        return '[' + ', '.join(f(x) for x in xs) + ']'
    b = lambda v: 'true' if v else 'false'
    txt = ('-- GENERATED by bin/vlib.py (regenerate_doc_tables) from doc/derive_ex.md of the repository. Do not edit.\n'
           'namespace DX.Generated\n\n'
           '/-- "which helper attributes affect which trait": (attribute [ord, partial_ord, eq, partial_eq, hash], trait [Ord, PartialOrd, Eq, PartialEq, Hash], ticked) -/\n'
           f'def docAttrTraitTable : List (Nat × Nat × Bool) := {lst(attr_trait, lambda x: f"({x[0]}, {x[1]}, {b(x[2])})")}\n\n'
           '/-- "helper attribute arguments and the locations where they can be used": (argument [ignore, reverse, by, key, bound], location [struct, enum, variant, field], ticked) -/\n'
           f'def docArgPlaceTable : List (Nat × Nat × Bool) := {lst(arg_place, lambda x: f"({x[0]}, {x[1]}, {b(x[2])})")}\n\n'
           '/-- "`bound(...)` can be used in the following places, the lower the number, the higher the priority": (source [helper attribute, per-trait argument, shared argument], placement [type, variant, field], number) -/\n'
           f'def docLevelTable : List (Nat × Nat × Nat) := {lst(levels, lambda x: f"({x[0]}, {x[1]}, {x[2]})")}\n\n'
           'end DX.Generated\n')
    out = f'{LEAN}/DeriveExModel/Generated/DocTables.lean'
    old = open(out).read() if os.path.exists(out) else ''
    if old != txt:
        open(out, 'w').write(txt)
    return True


def audit_theorems(prop, modules_theorems):
    """#print axioms for every property theorem; returns (results, log).
    results: list of dict(name, ok, axioms, why)."""
    os.makedirs(f'{WORK}/audit', exist_ok=True)
    names = []
    # one file per module: a module that no longer builds must not make the theorems of the others look broken
    paths = []
    with open(f'{WORK}/audit/{prop}.lean', 'w') as whole:
        whole.write(''.join(f'import {mod}\n' for mod, _ in modules_theorems))
        for k, (mod, ths) in enumerate(modules_theorems):
            path = f'{WORK}/audit/{prop}.{k}.lean'
            body = ''.join(f'#print axioms {t}\n' for t in ths)
            open(path, 'w').write(f'import {mod}\n' + body)
            whole.write(body)
            paths.append(path)
            names += ths
    with cf.ThreadPoolExecutor(8) as ex:
        rs = list(ex.map(lambda p: sh(['lake', 'env', 'lean', p], cwd=LEAN, timeout=1200), paths))
    out = ''.join(r.stdout + r.stderr for r in rs)
    results = []
    for t in names:
        short = t
        m = re.search(r"'" + re.escape(short) + r"' depends on axioms: \[([^\]]*)\]", out)
        m0 = re.search(r"'" + re.escape(short) + r"' does not depend on any axioms", out)
        if m:
            axs = [a.strip() for a in m.group(1).replace('\n', ' ').split(',') if a.strip()]
            bad = [a for a in axs if a not in ALLOWED_AXIOMS]
            results.append(dict(name=t, ok=not bad, axioms=axs, why=('' if not bad else 'axioms outside the allow-list: ' + ', '.join(bad))))
        elif m0:
            results.append(dict(name=t, ok=True, axioms=[], why=''))
        else:
            err = ''
            for line in out.splitlines():
                if 'error' in line:
                    err = line.strip()
                    break
            results.append(dict(name=t, ok=False, axioms=[], why='theorem does not check: ' + (err or 'not found')))
    return results, out[-4000:]


FORBIDDEN = re.compile(r'\bsorry\b|\badmit\b|^axiom |native_decide|bv_decide|implemented_by|\bunsafe |maxHeartbeats 0')


def grep_forbidden():
    """sorry / admit / axiom / native_decide … anywhere in the Lean sources (comments excluded)."""
    hits = []
    for root, _, files in os.walk(f'{LEAN}/DeriveExModel'):
        for fn in files:
            if not fn.endswith('.lean'):
                continue
            p = os.path.join(root, fn)
            txt = open(p).read()
            # strip block comments and line comments
            txt2 = re.sub(r'/-.*?-/', lambda m: '\n' * m.group(0).count('\n'), txt, flags=re.S)
            for i, line in enumerate(txt2.splitlines(), 1):
                line = line.split('--')[0]
                if FORBIDDEN.search(line):
                    hits.append(f'{p}:{i}: {line.strip()[:120]}')
    return hits


def ext_corpus():
    """L1c: the items of the repository's test-suite and documentation (`<args>\\t<item>` per line)"""
    import glob
    path = f'{WORK}/l1/corpus.tsv'
    os.makedirs(f'{WORK}/l1', exist_ok=True)
    files = sorted(glob.glob(f'{REPO}/derive-ex-tests/tests/*.rs')) + [f'{REPO}/doc/derive_ex.md', f'{REPO}/README.md']
    # a third, independently written source of inputs: the items of the well-typed program grammars (bin/l2gen.py),
    # incl. the hostile-name dictionary of C13
    try:
        import l2gen
        seed = int(os.environ.get('VERIF_SEED', '1') or 1)
        items = []
        for i in range(500):
            for g in (l2gen.gen_c20_case, l2gen.gen_c13_case):
                it = g(seed, i).get('item') or ''
                if it and 'pub mod' not in it:
                    items.append(it)
        gen_rs = f'{WORK}/l1/l2items.{os.getpid()}.rs'
        open(gen_rs, 'w').write('\n'.join(items) + '\n')
        files.append(gen_rs)
    except Exception:
        gen_rs = None
    r = subprocess.run([XCHECK, 'corpus'] + files, capture_output=True, text=True, env=ENV)
    if gen_rs:
        try:
            os.remove(gen_rs)
        except OSError:
            pass
    tmp = f'{path}.{os.getpid()}'
    open(tmp, 'w').write(r.stdout)
    os.replace(tmp, path)
    return path


def _l1_chunk(args):
    fam, seed, start, count, outpath = args
    if fam == 'ext':
        # inputs that do not come from the model's generators: the corpus itself (chunk 0) and mutants of it that lie
        # inside the model's fragment; `count` is the number of mutation attempts
        corpus = f'{WORK}/l1/corpus.tsv'
        src = f'{XCHECK} ser {corpus}' if start == 0 else f'{XCHECK} mutants {corpus} {seed * 100003 + start} {count}'
        cmd = f'({src}) 2>/dev/null | {DRV} ext | {XCHECK} l1 - {outpath}'
        r = subprocess.run(cmd, shell=True, capture_output=True, text=True, env=ENV)
        return outpath, r.returncode, r.stderr[-2000:]
    cmd = f'{DRV} gen {fam} {seed} {start} {count} | {XCHECK} l1 - {outpath}'
    r = subprocess.run(cmd, shell=True, capture_output=True, text=True, env=ENV)
    return outpath, r.returncode, r.stderr[-2000:]


def _bisect_crash(fam, seed, start, count, outpath):
    """the single case of [start, start+count) on which the comparer process dies, as a mismatch record of kind `panic`"""
    lo, n = start, count
    while n > 1:
        h = n // 2
        _, rc, _ = _l1_chunk((fam, seed, lo, h, outpath))
        if rc != 0:
            n = h
        else:
            lo, n = lo + h, n - h
    _, rc, err = _l1_chunk((fam, seed, lo, 1, outpath))
    if rc == 0:
        return None
    r = sh([DRV, 'gen', fam, str(seed), str(lo), '1'])
    c = dict(id=f'{fam}/{seed}/{lo}', entry='', args='', item='')
    for line in r.stdout.splitlines():
        if line.startswith('CASE '):
            c['id'] = line[5:]
        elif line.startswith('ENTRY '):
            c['entry'] = line[6:]
        elif line.startswith('ARGS'):
            c['args'] = line[4:].strip()
        elif line.startswith('ITEM '):
            c['item'] = line[5:]
    c['mismatches'] = [dict(seg=-1, label='*', kind='panic', model='',
                            real=f'the expander killed its process on this input (exit status {rc}: stack overflow or abort) {err[-300:]}')]
    return c


def run_l1(tag, fam, seed, total, start=0):
    """Runs `total` cases of a family through model and real expander in parallel.
    Returns dict(summary=..., mismatches=[...], failed=[...])."""
    os.makedirs(f'{WORK}/l1', exist_ok=True)
    if fam == 'ext':
        ext_corpus()
    nchunks = max(1, min(NPROC, total // 200 or 1))
    per = (total + nchunks - 1) // nchunks
    jobs = []
    for i in range(nchunks):
        s = start + i * per
        c = min(per, start + total - s)
        if c <= 0:
            break
        jobs.append((fam, seed, s, c, f'{WORK}/l1/{tag}.{fam}.{i}.jsonl'))
    summary = dict(cases=0, segments=0, bad_cases=0, by_label={}, mismatch_kinds={}, tags={}, error_messages={})
    mismatches = []
    failed = []
    with cf.ThreadPoolExecutor(NPROC) as ex:
        for job, (outpath, rc, err) in zip(jobs, ex.map(_l1_chunk, jobs)):
            if rc != 0:
                # the comparer died (a stack overflow or an abort inside the expander cannot be caught in-process):
                # find the case that kills it
                crash = _bisect_crash(job[0], job[1], job[2], job[3], outpath) if job[0] != 'ext' else None
                if crash:
                    mismatches.append(crash)
                    summary['bad_cases'] += 1
                    summary['mismatch_kinds']['panic'] = summary['mismatch_kinds'].get('panic', 0) + 1
                else:
                    failed.append(f'{outpath}: rc={rc} {err}')
                continue
            for line in open(outpath):
                line = line.strip()
                if not line:
                    continue
                d = json.loads(line)
                if d.get('summary'):
                    for k in ('cases', 'segments', 'bad_cases'):
                        summary[k] += d[k]
                    for k, (a, b) in d['by_label'].items():
                        x = summary['by_label'].setdefault(k, [0, 0])
                        x[0] += a
                        x[1] += b
                    for key in ('mismatch_kinds', 'tags', 'error_messages'):
                        for k, v in d[key].items():
                            summary[key][k] = summary[key].get(k, 0) + v
                else:
                    d['chunk'] = dict(family=job[0], seed=job[1], start=job[2], count=job[3])
                    mismatches.append(d)
            os.remove(outpath)
    return dict(summary=summary, mismatches=mismatches, failed=failed, family=fam, seed=seed, start=start, total=total)


def _mismatch_key(x):
    """what kind of disagreement a mismatch record is: its kind and the trait of the segment it sits in"""
    lab = re.sub(r'^e\d+:', '', x.get('label', '')).split('#')[0]
    return (x['kind'], lab)


def run_l1_shrink_step(tag, fam, seed, idx, path, with_candidates=True):
    """model and implementation on the case reached by `path` and (optionally) on its one-step reductions"""
    os.makedirs(f'{WORK}/l1', exist_ok=True)
    out = f'{WORK}/l1/{tag}.shrink.jsonl'
    mode = 'shrink' if with_candidates else 'shrunk'
    cmd = f'{DRV} {mode} {fam} {seed} {idx} {path} | {XCHECK} l1 - {out}'
    r = subprocess.run(cmd, shell=True, capture_output=True, text=True, env=ENV)
    if r.returncode != 0:
        return None
    res = {}
    for line in open(out):
        line = line.strip()
        if line:
            d = json.loads(line)
            if not d.get('summary'):
                res[d['id']] = d
    os.remove(out)
    return res


def shrink_l1(tag, m, label_re, kinds=None, max_steps=80):
    """Greedy shrinking of an L1 disagreement: repeatedly move to the first one-step reduction of the case (drop a field,
    a variant, an attribute, an argument, a listed trait, a parameter, ...: lean/DeriveExModel/Shrink.lean) on which model
    and implementation still disagree in the same way (same kind of mismatch in a segment of the same trait).
    Returns the minimal disagreeing case (its id ends in @<path>) or None."""
    parts = m['id'].split('/')
    if len(parts) != 3 or '@' in parts[2] or parts[0] in ('meta15', 'metaDump'):
        return None
    fam, seed, idx = parts

    def rel(mm):
        r = relevant(mm, label_re)
        return [x for x in r if not kinds or x['kind'] in kinds]
    want = {_mismatch_key(x) for x in rel(m)}
    if not want:
        return None
    path = '-'
    best = None
    for _ in range(max_steps):
        res = run_l1_shrink_step(tag, fam, seed, idx, path)
        if res is None:
            break
        prefix = f'{fam}/{seed}/{idx}@' + ('' if path == '-' else path + '.')
        cands = []
        for cid, d in res.items():
            if cid.startswith(prefix) and cid[len(prefix):].isdigit():
                if any(_mismatch_key(x) in want for x in rel(d)):
                    cands.append((int(cid[len(prefix):]), d))
        if not cands:
            break
        k, d = min(cands, key=lambda t: t[0])
        path = str(k) if path == '-' else f'{path}.{k}'
        best = d
    return best


def alone_l1(tag, m):
    """the same case, alone in a fresh process: the mismatch records it gives there (None if it cannot be re-run by id)"""
    parts = m['id'].split('/')
    if parts[0] in ('ext', 'mut'):
        return run_ext_single(tag + '-alone', m.get('entry', 'attr'), m.get('args', ''), m.get('item', '')) if m.get('item') else None
    if len(parts) != 3 or '@' in parts[2] or parts[0] in ('meta15', 'metaDump'):
        return None
    fam, seed, idx = parts
    os.makedirs(f'{WORK}/l1', exist_ok=True)
    out = f'{WORK}/l1/{tag}.alone.jsonl'
    cmd = f'{DRV} gen {fam} {seed} {idx} 1 | {XCHECK} l1 - {out}'
    r = subprocess.run(cmd, shell=True, capture_output=True, text=True, env=ENV)
    if r.returncode != 0:
        return None
    res = []
    for line in open(out):
        line = line.strip()
        if line:
            d = json.loads(line)
            if not d.get('summary'):
                res += d['mismatches']
    os.remove(out)
    return res


def run_ext_single(tag, entry, args, item):
    """one externally given input through serialiser, model and comparer; returns its mismatch records (None: the input is
    outside the model's fragment)"""
    os.makedirs(f'{WORK}/l1', exist_ok=True)
    tsv = f'{WORK}/l1/{tag}.single.tsv'
    out = f'{WORK}/l1/{tag}.single.jsonl'
    if entry == 'derive':
        # the derive form was built as `#[derive_ex(args)] item`: split it again
        m = re.match(r'\s*#\s*\[\s*derive_ex\s*\((.*?)\)\s*\]\s*(.*)$', item, re.S)
        if not m:
            return None
        args, item = m.group(1), m.group(2)
    open(tsv, 'w').write(args.replace('\n', ' ') + '\t' + item.replace('\n', ' ') + '\n')
    cmd = f'({XCHECK} ser {tsv}) 2>/dev/null | {DRV} ext | {XCHECK} l1 - {out}'
    r = subprocess.run(cmd, shell=True, capture_output=True, text=True, env=ENV)
    if r.returncode != 0 or not os.path.exists(out):
        return None
    res, ncases = [], 0
    for line in open(out):
        line = line.strip()
        if line:
            d = json.loads(line)
            if d.get('summary'):
                ncases = d['cases']
            else:
                res += d['mismatches']
    return res if ncases else None


def family_count(fam):
    r = sh([DRV, 'count', fam])
    t = r.stdout.strip()
    return None if t == 'inf' else int(t)


def sample_cases(fam, seed, idxs):
    """A few actual cases, written out, for the evidence file."""
    out = []
    for i in idxs:
        r = sh([DRV, 'gen', fam, str(seed), str(i), '1'])
        c = {}
        segs = []
        for line in r.stdout.splitlines():
            if line.startswith('CASE '):
                c['id'] = line[5:]
            elif line.startswith('ENTRY '):
                c['entry'] = line[6:]
            elif line.startswith('ARGS'):
                c['args'] = line[4:].strip()
            elif line.startswith('ITEM '):
                c['item'] = line[5:]
            elif line.startswith('SEG '):
                segs.append(line[4:])
        c['model_segments'] = segs
        out.append(c)
    return out


def relevant(mism, label_re):
    """Those mismatch records of a case that concern a property (by segment label)."""
    rx = re.compile(label_re)
    out = []
    for m in mism['mismatches']:
        if m['label'] == '*' or rx.search(m['label']):
            out.append(m)
    return out


def load_known_findings():
    """Lines `open: property=<id> key=<key> <text>`; returns {prop: {key: text}}."""
    res = {}
    p = f'{VERIF}/known_findings.txt'
    if not os.path.exists(p):
        return res
    for line in open(p):
        line = line.strip()
        m = re.match(r'open:\s+property=(\S+)\s+key=(\S+)\s*(.*)', line)
        if m:
            res.setdefault(m.group(1), {})[m.group(2)] = m.group(3)
    return res


def write_json(path, obj):
    os.makedirs(os.path.dirname(path), exist_ok=True)
    with open(path, 'w') as f:
        json.dump(obj, f, indent=1, sort_keys=False)
        f.write('\n')
