#!/usr/bin/env python3
"""quote_idents.py [repo]: the identifiers the expander *writes* — every identifier token inside a `quote!`, `quote_spanned!`,
`parse_quote!` template of derive-ex/src, classified by its syntactic anchor — extracted from the source text on every run.

  free     not behind `::`, `.`, `fn`, `type`, not an interpolation `#x`, not inside `#[..]`: a name that resolves in the
           scope of the user's item — must be a keyword, a primitive type, a `__`-reserved or a block-local name
  absroot  first segment of a path that starts with `::`                — must be `core`
  fmt      format strings of `format_ident!`                            — must start with `__`

Prints a Lean file (namespace DX.Generated) that Props/QuoteIdents.lean proves acceptable."""
import os
import re
import sys

TOK = re.compile(r'''
    (?P<ws>\s+|//[^\n]*|/\*.*?\*/)
  | (?P<str>b?"(?:\\.|[^"\\])*")
  | (?P<rawstr>r\#*".*?"\#*)
  | (?P<life>'[A-Za-z_][A-Za-z0-9_]*(?!'))
  | (?P<chr>'(?:\\.|[^'\\])')
  | (?P<id>(?:r\#)?[A-Za-z_][A-Za-z0-9_]*)
  | (?P<num>[0-9][A-Za-z0-9_.]*)
  | (?P<p>::|->|=>|\.\.=|\.\.\.|\.\.|&&|\|\||==|!=|<=|>=|[-+*/%^&|!=<>@.,;:\#$?~(){}\[\]])
''', re.X | re.S)

OPEN = {'(': ')', '[': ']', '{': '}'}


def lex(text):
    out = []
    pos = 0
    line = 1
    while pos < len(text):
        m = TOK.match(text, pos)
        if not m:
            pos += 1
            continue
        k = m.lastgroup
        if k != 'ws':
            out.append((k, m.group(0), line))
        line += m.group(0).count('\n')
        pos = m.end()
    return out


def group_end(toks, i):
    """index just past the delimiter group opening at toks[i]"""
    depth = 0
    j = i
    while j < len(toks):
        t = toks[j][1]
        if toks[j][0] == 'p' and t in OPEN:
            depth += 1
        elif toks[j][0] == 'p' and t in OPEN.values():
            depth -= 1
            if depth == 0:
                return j + 1
        j += 1
    return j


def templates(toks):
    """(macro name, token list inside the delimiters, line) for every template macro, nested ones included once"""
    res = []
    i = 0
    while i < len(toks) - 2:
        k, t, ln = toks[i]
        if k == 'id' and t in ('quote', 'quote_spanned', 'parse_quote', 'parse_quote_spanned') and toks[i + 1][1] == '!' \
                and toks[i + 2][1] in OPEN:
            e = group_end(toks, i + 2)
            body = toks[i + 3:e - 1]
            if t.endswith('spanned'):
                # skip `span =>`
                for j, x in enumerate(body):
                    if x[1] == '=>':
                        body = body[j + 1:]
                        break
            res.append((t, body, ln))
            i = e
        else:
            i += 1
    return res


def classify(body, fname, free, absroots, members, singles, relroots, methods, selfpaths):
    n = len(body)
    if n == 1 and body[0][0] == 'id':
        # a fragment that is one identifier: spliced into another template (a method name behind `.`), or not generated
        # code at all (an attribute path the expander compares with)
        singles.setdefault(body[0][1], f'{fname}:{body[0][2]}')
        return
    i = 0
    attr_depth = []   # stack of closing indices of `#[ .. ]`
    while i < n:
        k, t, ln = body[i]
        # interpolation `#x` / repetition `#( .. ) sep *`
        if k == 'p' and t == '#' and i + 1 < n:
            nk, nt, _ = body[i + 1]
            if nk == 'id':
                if i > 0 and body[i - 1][1] == '.' and i + 2 < n and body[i + 2][1] in ('(', '::'):
                    # `x.#name(..)`: a method call whose name is spliced in
                    methods.setdefault('#' + nt, f'{fname}:{ln}')
                i += 2
                continue
            if nt == '(':
                i += 2          # the repetition's content is template text; its `)` `*` are punctuation anyway
                continue
            if nt == '[' or (nt == '!' and i + 2 < n and body[i + 2][1] == '['):
                # a generated attribute: its content does not resolve in the user's scope
                j = i + 1 if nt == '[' else i + 2
                i = group_end(body, j)
                continue
        if k == 'id':
            prev = body[i - 1][1] if i > 0 else ''
            prevk = body[i - 1][0] if i > 0 else ''
            if prev == '::':
                # walk back to the start of the path
                j = i - 1
                while j >= 2 and body[j][1] == '::' and body[j - 1][0] == 'id' and body[j - 2][1] == '::':
                    j -= 2
                # body[j] is the first `::` of the chain we can see; what stands in front of it?
                before = body[j - 1] if j > 0 else ('', '', 0)
                is_abs = not (before[0] == 'id' or before[1] == '>')
                if is_abs:
                    root = body[j + 1][1]
                    if i == j + 1:
                        absroots.setdefault(root, f'{fname}:{ln}')
                else:
                    members.setdefault(t, f'{fname}:{ln}')
                    if before[0] == 'id' and before[1] == 'Self' and i == j + 1:
                        # `Self::name` with a literal name: looked up among the variants and inherent items of the
                        # user's type before the traits
                        selfpaths.setdefault((t, fname.split('/')[-1]), f'{fname}:{ln}')
                    if before[0] == 'id' and before[1] in ('crate', 'super', 'self'):
                        # a path relative to the *user's* crate or module
                        relroots.setdefault(before[1], f'{fname}:{ln}')
            elif prev == '.' and i + 1 < n and body[i + 1][1] in ('(', '::'):
                # a method call `x.name(..)`: looked up among the inherent methods *and the traits in scope of the user*
                methods.setdefault(t, f'{fname}:{ln}')
            elif prev in ('.', 'fn', 'type'):
                members.setdefault(t, f'{fname}:{ln}')
            elif i + 1 < n and body[i + 1][1] == '=' and prev in ('<', ','):
                # the name of an associated-type binding `Trait<Output = ..>`
                members.setdefault(t, f'{fname}:{ln}')
            else:
                free.setdefault(t, f'{fname}:{ln}')
        elif k == 'life':
            free.setdefault(t, f'{fname}:{ln}')
        i += 1


def main():
    repo = sys.argv[1] if len(sys.argv) > 1 else os.environ.get('VERIF_REPO', '/repo')
    src = os.path.join(repo, 'derive-ex', 'src')
    free, absroots, members, fmts, singles, prefixes, relroots, methods, selfpaths = {}, {}, {}, {}, {}, {}, {}, {}, {}
    ntempl = 0
    for root, _, files in os.walk(src):
        for f in sorted(files):
            if not f.endswith('.rs'):
                continue
            path = os.path.join(root, f)
            rel = os.path.relpath(path, src)
            text = open(path).read()
            if rel == 'lib.rs':
                # the crate documentation (doc comments with examples) is not template text
                text = re.sub(r'(?m)^\s*//[/!].*$', '', text)
            toks = lex(text)
            for name, body, ln in templates(toks):
                ntempl += 1
                classify(body, rel, free, absroots, members, singles, relroots, methods, selfpaths)
                # nested templates inside a template body are rare; handled by the outer walk
            for i, (k, t, ln) in enumerate(toks):
                if k == 'id' and t == 'format_ident' and toks[i + 1][1] == '!' and toks[i + 3][0] == 'str':
                    fmts.setdefault(toks[i + 3][1], f'{rel}:{ln}')
                # the prefixes of per-field binders and helper functions: string literals passed to make_ident / make_pat*
                if k == 'id' and re.fullmatch(r'make_ident|make_pat\w*', t) and i > 0 and toks[i - 1][1] == '.' \
                        and toks[i + 1][1] == '(' and toks[i + 2][0] == 'str':
                    prefixes.setdefault(toks[i + 2][1].strip('"'), f'{rel}:{ln}')

    def lean_list(d):
        return '[' + ', '.join('"' + k.replace('\\', '\\\\').replace('"', '\\"') + '"' for k in sorted(d)) + ']'
    print('/- generated by bin/quote_idents.py from derive-ex/src on every run: do not edit -/')
    print('namespace DX.Generated')
    print(f'/-- number of template macro invocations found -/\ndef quoteTemplates : Nat := {ntempl}')
    print('/-- identifiers and lifetimes written in a template without an anchor: they resolve in the scope of the user\'s item -/')
    print('def quoteFree : List String := ' + lean_list(free))
    print('/-- templates that consist of one identifier -/')
    print('def quoteSingles : List String := ' + lean_list(singles))
    print('/-- first segments of the paths that start with `::` -/')
    print('def quoteAbsRoots : List String := ' + lean_list(absroots))
    print('/-- heads of paths relative to the user\'s crate or module (`crate::`, `super::`, `self::`) -/')
    print('def quoteRelRoots : List String := ' + lean_list(relroots))
    print('/-- names called in method syntax (`x.name(..)`): looked up among the traits in scope of the user as well -/')
    print('def quoteMethods : List String := ' + lean_list(methods))
    print('/-- `Self::name` with the name written literally, and the file: resolved among the variants of the user\'s type first -/')
    print('def quoteSelfPaths : List (String × String) := [' + ', '.join(f'("{k[0]}", "{k[1]}")' for k in sorted(selfpaths)) + ']')
    print('/-- format strings of `format_ident!` -/')
    print('def quoteFormatIdents : List String := ' + lean_list({k.strip('"'): v for k, v in fmts.items()}))
    print('/-- prefixes of per-field binders and helper functions: the string literals passed to `make_ident` / `make_pat*` -/')
    print('def quoteBinderPrefixes : List String := ' + lean_list(prefixes))
    print('/-- where each was first seen -/')
    print('def quoteWhere : List (String × String) := [' + ', '.join(f'("{k}", "{v}")' for k, v in sorted({**free, **absroots, **singles, **prefixes, **methods}.items())) + ']')
    print('end DX.Generated')


if __name__ == '__main__':
    main()
