"""L2: programs compiled against the real proc-macro (built from /repo's working tree) and run."""
import concurrent.futures as cf
import os
import re
import subprocess
import vlib
from vlib import WORK, DRV, ENV, NPROC

PM_TARGET = f'{WORK}/pm-target{vlib.TSUF}'
SO = f'{PM_TARGET}/debug/libderive_ex.so'


def build_pm():
    """The real proc-macro, from the current working tree, guard off."""
    r = vlib.sh(['cargo', 'build', '-q', '-p', 'derive-ex', '--offline', '--target-dir', PM_TARGET],
                cwd=vlib.REPO, timeout=1800)
    ok = r.returncode == 0 and os.path.exists(SO)
    return ok, (r.stdout + r.stderr)[-4000:]


def rustc(src, out, emit_metadata=False, extra=()):
    cmd = ['rustc', '--edition', '2021', '--extern', f'derive_ex={SO}', '-C', 'debuginfo=0', '-A', 'warnings']
    if emit_metadata:
        cmd += ['--crate-type', 'lib', '--emit=metadata']
    cmd += list(extra) + ['-o', out, src]
    return subprocess.run(cmd, capture_output=True, text=True, env=ENV)


def _split_sections(text):
    secs = {}
    cur = None
    for line in text.splitlines():
        if line in ('PROGRAM', 'EXPECT', 'STATS', 'END'):
            cur = line
            secs.setdefault(cur, [])
        elif cur:
            secs[cur].append(line)
    return secs


def _run_prog(args):
    fam, seed, start, count, tag = args
    d = f'{WORK}/l2'
    os.makedirs(d, exist_ok=True)
    base = f'{d}/{tag}_{fam}_{start}'
    gen = subprocess.run([DRV, 'l2', fam, str(seed), str(start), str(count)], capture_output=True, text=True, env=ENV)
    if gen.returncode != 0:
        return dict(error=f'driver failed: {gen.stderr[-1000:]}', start=start, count=count)
    secs = _split_sections(gen.stdout)
    src = base + '.rs'
    open(src, 'w').write('\n'.join(secs.get('PROGRAM', [])) + '\n')
    c = rustc(src, base + '.bin')
    res = dict(start=start, count=count, stats=secs.get('STATS', []), src=src)
    if c.returncode != 0:
        # attribute the first errors to case modules by line number
        res['compile_error'] = c.stderr[-6000:]
        return res
    r = subprocess.run([base + '.bin'], capture_output=True, text=True)
    res['observed'] = r.stdout.splitlines()
    res['expected'] = secs.get('EXPECT', [])
    res['run_rc'] = r.returncode
    res['run_err'] = r.stderr[-2000:]
    try:
        os.remove(base + '.bin')
    except OSError:
        pass
    return res


def run_family(tag, fam, seed, total, per_prog=150):
    """Returns dict(types, rows, cells, mismatches, compile_failures, stats, observed_by_mod)."""
    jobs = []
    s = 0
    while s < total:
        c = min(per_prog, total - s)
        jobs.append((fam, seed, s, c, tag))
        s += c
    out = dict(types=0, rows=0, cells=0, mismatches=[], compile_failures=[], stats={}, observed={}, sources={})
    with cf.ThreadPoolExecutor(NPROC) as ex:
        for res in ex.map(_run_prog, jobs):
            if 'error' in res:
                out['compile_failures'].append(res)
                continue
            for line in res.get('stats', []):
                if line.startswith('STAT '):
                    _, m, t = line.split(' ', 2)
                    out['stats'][t] = out['stats'].get(t, 0) + 1
                elif line.startswith('SRC '):
                    _, m, t = line.split(' ', 2)
                    out['sources'][f"{res['start']}:{m}"] = t
            if 'compile_error' in res:
                out['compile_failures'].append(dict(start=res['start'], count=res['count'], src=res['src'],
                                                    stderr=res['compile_error']))
                continue
            out['types'] += res['count']
            obs, exp = res['observed'], res['expected']
            out['rows'] += len(obs)
            for line in obs:
                parts = line.split(' ', 2)
                if len(parts) == 3:
                    out['cells'] += len(parts[2]) if parts[1] in ('eq', 'pcmp', 'cmp') else 1
                    out['observed'].setdefault(f"{res['start']}:{parts[0]}", []).append((parts[1], parts[2]))
                elif len(parts) == 2:
                    out['observed'].setdefault(f"{res['start']}:{parts[0]}", []).append((parts[1], ''))
            if res['run_rc'] != 0:
                out['mismatches'].append(dict(kind='program crashed', start=res['start'], stderr=res['run_err'], src=res['src']))
            n = max(len(obs), len(exp))
            for i in range(n):
                o = obs[i] if i < len(obs) else '<missing>'
                e = exp[i] if i < len(exp) else '<missing>'
                if o != e:
                    mod = (o if o != '<missing>' else e).split(' ')[0]
                    out['mismatches'].append(dict(kind='behaviour', module=mod, row=i, observed=o, expected=e,
                                                  source=out['sources'].get(f"{res['start']}:{mod}", ''),
                                                  program=res['src'], family=fam, seed=seed, start=res['start']))
                    if len(out['mismatches']) > 50:
                        break
            if not out['mismatches'] and not os.environ.get('VERIF_KEEP'):
                try:
                    os.remove(res['src'])
                except OSError:
                    pass
    return out


REV = {'<': '>', '>': '<', '=': '=', 'N': 'N'}


def law_violations(observed, sources):
    """Model-free coherence laws over the observed matrices of the lawful family (C02)."""
    bad = []
    checked = 0
    for key, rows in observed.items():
        m = {}
        for kind, s in rows:
            m.setdefault(kind, []).append(s)
        eq, pc, cm, hs = m.get('eq'), m.get('pcmp'), m.get('cmp'), m.get('hash')
        n = len(eq or pc or cm or hs or [])
        # field type `P` of the lawful prelude: a lawful *partial* order (`P(2)` is unequal to itself, like a NaN) —
        # reflexivity is not a law there; the agreement of `==` with `partial_cmp` is
        partial = re.search(r'\bP\b', sources.get(key, '').split('{', 1)[-1]) is not None

        def fail(law, i, j, k=None):
            bad.append(dict(module=key, law=law, i=i, j=j, k=k, source=sources.get(key, ''),
                            rows={kk: vv for kk, vv in m.items()}))
        for i in range(n):
            for j in range(n):
                checked += 1
                if eq and pc and ((eq[i][j] == '1') != (pc[i][j] == '=')):
                    fail('a == b  iff  partial_cmp(a,b) == Some(Equal)', i, j)
                if eq and cm and ((eq[i][j] == '1') != (cm[i][j] == '=')):
                    fail('a == b  iff  cmp(a,b) == Equal', i, j)
                if pc and cm and pc[i][j] != cm[i][j]:
                    fail('partial_cmp(a,b) == Some(cmp(a,b))', i, j)
                if eq and hs and eq[i][j] == '1' and hs[i] != hs[j]:
                    fail('a == b  implies equal hash feeds', i, j)
                if eq and eq[i][j] != eq[j][i]:
                    fail('== symmetric', i, j)
                if cm and cm[j][i] != REV[cm[i][j]]:
                    fail('cmp(b,a) == cmp(a,b).reverse()', i, j)
            if eq and eq[i][i] != '1' and not partial:
                fail('== reflexive', i, i)
            if cm and cm[i][i] != '=':
                fail('cmp(a,a) == Equal', i, i)
        if n <= 30:
            for i in range(n):
                for j in range(n):
                    for k in range(n):
                        if eq and eq[i][j] == '1' and eq[j][k] == '1' and eq[i][k] != '1':
                            fail('== transitive', i, j, k)
                        if cm and cm[i][j] in '<=' and cm[j][k] in '<=' and cm[i][k] not in '<=':
                            fail('cmp transitive', i, j, k)
                        if cm and cm[i][j] == '<' and cm[j][k] in '<=' and cm[i][k] != '<':
                            fail('cmp transitive (strict)', i, j, k)
        if len(bad) > 20:
            break
    return bad, checked


def _verdict(args):
    path, src = args
    open(path, 'w').write(src)
    r = subprocess.run(['rustc', '--edition', '2021', '--crate-type', 'lib', '--emit=metadata', '--extern',
                        f'derive_ex={SO}', '--error-format=json', '-o', path[:-3] + '.rmeta', path],
                       capture_output=True, text=True, env=ENV)
    diags = []
    for line in r.stderr.splitlines():
        if not line.startswith('{'):
            continue
        try:
            import json
            d = json.loads(line)
        except Exception:
            continue
        if d.get('level') in ('error', 'warning') and d.get('message') and not d['message'].startswith('aborting due to'):
            sp = d.get('spans') or [{}]
            in_macro = any(s.get('expansion') for s in sp)
            diags.append(dict(level=d['level'], code=(d.get('code') or {}).get('code'), message=d['message'][:300],
                              in_macro_output=in_macro,
                              line=(sp[0].get('line_start') if sp else None)))
    for ext in ('.rmeta',):
        try:
            os.remove(path[:-3] + ext)
        except OSError:
            pass
    return r.returncode, diags


def rustc_verdicts(tag, cases):
    """cases: list of dict(id, src). Returns list of (case, rc, diags)."""
    d = f'{WORK}/l2v/{tag}'
    os.makedirs(d, exist_ok=True)
    jobs = [(f'{d}/c{i}.rs', c['src']) for i, c in enumerate(cases)]
    out = []
    with cf.ThreadPoolExecutor(NPROC) as ex:
        for c, (rc, diags), (path, _) in zip(cases, ex.map(_verdict, jobs), jobs):
            out.append((c, rc, diags, path))
            if rc == 0 and not diags:
                try:
                    os.remove(path)
                except OSError:
                    pass
    return out
