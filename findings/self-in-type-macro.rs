// open: Self inside a macro in type position is not written out for the impls on references
// (from the third independent defect hunt, seeded/hunt3/C09/demo3.rs)
// C09 demo 3 -- `Self` in the user's `Output` (or where-clause / Rhs) is not carried over when
// it stands inside a macro invocation in type position.
//
// Expected by the property: "the user's `Output`, generics and where-clause (including uses of
// `Self`) carry over": all derived forms have `Output = (X, X)` like the user's impl.
// (`type Output = (Self, Self);` written without the macro works.)
//
// Actual: COMPILE ERROR (E0308).  `expand_self` (syn_utils.rs) replaces `Self` only where it is a
// parsed `Type`; the tokens of `Pair![Self]` are copied as they are, so in the generated
// `impl Add<X> for &X` / `impl Add<&X> for &X` the output type reads `(&X, &X)`:
//     expected `(&X, &X)`, found `(X, X)`
use derive_ex::derive_ex;
use std::ops::Add;

macro_rules! Pair {
    ($t:ty) => { ($t, $t) };
}

#[derive(Clone, Debug)]
struct X(u32);

#[derive_ex(Add)]
impl Add for X {
    type Output = Pair![Self];
    fn add(self, rhs: X) -> Pair![Self] {
        (X(self.0 + rhs.0), X(self.0 * rhs.0))
    }
}

fn main() {
    println!("{:?}", X(2) + X(3)); // expected (X(5), X(6))
    println!("{:?}", &X(2) + &X(3)); // expected (X(5), X(6))
}
