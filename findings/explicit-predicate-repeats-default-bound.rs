// `bound(fn(&T) -> bool: Hash)` written on one field (needed there: the field has `hash(by = ..)`) next to another used
// field of the same type: the default bound of the second field repeats the predicate the user wrote, and for a type with a
// higher-ranked lifetime rustc cannot choose between the two copies (E0283).  F40 states every *type* once; a predicate that
// equals the bound of a type is still stated next to it.  (found by my own generator under another seed)
use derive_ex::derive_ex;
use std::hash::{Hash, Hasher};
fn fh<A: Hash + ?Sized, H: Hasher>(a: &A, h: &mut H) { a.hash(h) }
#[derive_ex(Hash)]
struct X<T>(#[hash(by = fh, bound(fn(&T) -> bool: Hash))] fn(&T) -> bool, fn(&T) -> bool);
fn main() {
    fn f(_: &u8) -> bool { true }
    let x = X::<u8>(f, f);
    let mut s = std::collections::hash_map::DefaultHasher::new();
    x.hash(&mut s);
    println!("{}", s.finish());
}
