// demo3 -- C10, COMPILE ERROR (E0793) in the generated code.
//
// For a `#[repr(packed)]` struct the macro still generates `.field("p", &self.p)`, i.e. a reference to
// a possibly misaligned field, which rustc rejects.  The std derive copies the field
// (`&{ self.p }`) for packed structs, so `#[derive(Debug)]` on the same type compiles.
//
// expected (property C10, = std derive):  P { n: 1, p: 2 }
// actual: error[E0793]: reference to field of packed struct is unaligned
// (same in derive mode: #[derive(Ex)] #[derive_ex(Debug)])
#![allow(dead_code)]
use derive_ex::derive_ex;

#[derive_ex(Debug)]
#[repr(packed)]
pub struct P {
    n: u8,
    p: u32,
}

#[derive(Debug)]
#[repr(packed)]
pub struct PStd {
    n: u8,
    p: u32,
}

fn main() {
    println!("{:?}", PStd { n: 1, p: 2 });
    println!("{:?}", P { n: 1, p: 2 });
}
