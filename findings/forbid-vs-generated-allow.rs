// A crate that *forbids* a lint which the generated code *allows*: `#[derive_ex(PartialEq)]` (every comparison trait)
// carries `#[allow(unused_parens)]` / `#[allow(clippy::double_parens)]` on its impls, and an `allow` under a `forbid` of
// the same lint is an error (E0453).  The standard derives emit no `allow` attributes and compile.
// (reported in passing by a hunter of the second round, C06)
#![forbid(unused_parens)]
use derive_ex::derive_ex;
#[derive_ex(PartialEq, Debug)]
struct X(u8);
#[derive(PartialEq, Debug)]
struct Std(u8);
fn main() { assert_eq!(X(1), X(1)); assert_eq!(Std(1), Std(1)); }
