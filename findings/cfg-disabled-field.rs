// C12 demo 2 -- a field / a variant that is configured out with `#[cfg(..)]` (attribute form `#[derive_ex(..)]`).
//
// Expected (property C12): drop-in for the standard derives.  `#[derive(..)]` sees the item after cfg-stripping, so a
// struct or enum with a `#[cfg(feature = "..")]` field or variant (a very common thing to write) compiles and runs whether
// the cfg holds or not (build with `--cfg use_std`; here `cfg(any())` stands for "a feature that is off").
//
// Actual: COMPILE ERROR in the generated impls of every trait (Clone, Debug, Default, PartialEq, Eq, PartialOrd, Ord, Hash):
//   error[E0560]: struct `Config` has no field named `trace`
//   error[E0609]: no field `trace` on type `&Config`
//   error[E0599]: no variant or associated item named `Verbose` found for enum `Level`
//   error[E0425]: cannot find type `TraceSink` in this scope         (the type only exists with the feature)
// An attribute macro receives the item *before* cfg-stripping.  item_type.rs builds one initialiser / comparison /
// match arm per syntactic field and variant (`FieldEntry::from_fields`, `VariantEntry::from_variants`,
// `build_ctor_args`) and neither evaluates nor copies the `#[cfg]` attributes, so the generated code refers to fields,
// variants and types that do not exist.  (`#[derive(Ex)] #[derive_ex(..)]` is not affected: derive input is cfg-stripped.)
#[cfg(not(use_std))]
use derive_ex::derive_ex;

#[cfg(any())]
#[derive(Clone, Debug, Default, PartialEq, Eq, PartialOrd, Ord, Hash)]
pub struct TraceSink(String);

#[cfg_attr(use_std, derive(Clone, Debug, Default, PartialEq, Eq, PartialOrd, Ord, Hash))]
#[cfg_attr(not(use_std), derive_ex(Clone, Debug, Default, PartialEq, Eq, PartialOrd, Ord, Hash))]
pub struct Config {
    pub retries: u8,
    #[cfg(any())]
    pub trace: TraceSink,
}

#[cfg_attr(use_std, derive(Clone, Debug, Default, PartialEq, Eq, PartialOrd, Ord, Hash))]
#[cfg_attr(not(use_std), derive_ex(Clone, Debug, Default, PartialEq, Eq, PartialOrd, Ord, Hash))]
pub enum Level {
    #[default]
    Quiet,
    Normal(u8),
    #[cfg(any())]
    Verbose(TraceSink),
}

fn main() {
    let c = Config { retries: 3 };
    assert_eq!(c.clone(), c);
    assert!(Config::default() < c);
    assert!(Level::default() < Level::Normal(0));
    println!("{:?} {:?}", c, Level::Normal(1));
}
