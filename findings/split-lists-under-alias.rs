// open: split lists under a renamed import of the attribute macro
// (from the second independent defect hunt, seeded/hunt2/C02/demo2.rs)
// C02 demo 2 -- same root cause as demo 1 (a second expansion of the attribute macro does not see
// the helper attributes the first one consumed), other trigger and other symptom.
//
// Trigger: the attribute macro is imported under another name (`use derive_ex::derive_ex as dx;`),
// so the second `#[dx(..)]` is not recognised as "one more derive_ex attribute of this item" by the
// first expansion (it compares the attribute path with the identifier `derive_ex`).
//
// Expected by the property: `a == b` implies `hash(a) == hash(b)`, so the type is safe as a
// HashSet / HashMap key.  `#[eq(key = $.len())]` affects Eq, PartialEq and Hash (documentation
// table), and with `#[dx(Eq, PartialEq, Hash)]` in ONE attribute all three use the key.
//
// Actual: `#[dx(Eq, PartialEq)]` expands first, uses the key and strips `#[eq(..)]`; `#[dx(Hash)]`
// then derives the default Hash over the whole string.  Accepted without any diagnostic.
//
// Symptom: WRONG RUN-TIME RESULT: X{"a"} == X{"b"} is true, their hashes differ, and a HashSet
// containing X{"a"} answers `contains(&X{"b"})` with false.
use derive_ex::derive_ex as dx;
use std::collections::hash_map::DefaultHasher;
use std::collections::HashSet;
use std::hash::{Hash, Hasher};

#[dx(Eq, PartialEq, Debug)]
#[dx(Hash)]
struct X {
    #[eq(key = $.len())]
    s: &'static str,
}

fn h<T: Hash>(t: &T) -> u64 {
    let mut s = DefaultHasher::new();
    t.hash(&mut s);
    s.finish()
}

fn main() {
    let a = X { s: "a" };
    let b = X { s: "b" };
    println!("a == b: {}", a == b);
    println!("hash(a) == hash(b): {}", h(&a) == h(&b));
    let mut set = HashSet::new();
    set.insert(X { s: "a" });
    println!("set.contains(&b): {}", set.contains(&b));
    assert!(a == b);
    assert_eq!(h(&a), h(&b), "C02 violated: equal values with different hashes");
}
