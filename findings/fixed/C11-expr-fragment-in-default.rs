// repaired by 35f4907 (F36): #[default($e * 2)] computed 1 + 2 * 2
// (from the second independent defect hunt, seeded/hunt2/C19/side_expr_group_not_C19.rs)
// NOT a C19 violation (dump and generated code agree) - recorded as a by-catch of the hunt.
// A `$e:expr` fragment used inside `#[default(..)]` loses its grouping in the generated code:
// `$e * 2` with `$e = 1 + 2` is generated (and dumped) as `1 + 2 * 2`.
// Expected (hand-written `a: $e * 2` in the same macro): 6.  Actual: 5.  Symptom: wrong run-time result.
use derive_ex::derive_ex;
macro_rules! m {
    ($n:ident, $e:expr) => {
        #[derive_ex(Default)]
        struct $n {
            #[default($e * 2)]
            a: u8,
        }
        fn hand() -> u8 { $e * 2 }
    };
}
m!(A, 1 + 2);
fn main() {
    println!("derive_ex: {}  hand-written: {}", A::default().a, hand());
    assert_eq!(A::default().a, hand());
}
