// repaired by 4432970 (F34): Eq derived by a separate expansion after the helper attributes were gone
// (from the second independent defect hunt, seeded/hunt2/C17/demo3.rs)
// C17 demo 3 -- symptom: NO compile error where one is required (the type silently becomes `Eq`),
// visible at run time as a non-reflexive `==` on an `Eq` type.
//
// The attribute is written with its path (`#[derive_ex::derive_ex(..)]`, equally `use derive_ex::derive_ex as dx;
// #[dx(..)]`), once per trait.  The macro merges sibling attributes only when they are spelt exactly
// `derive_ex` (parse_derive_ex_attrs: `attr.path() == parse_quote!(derive_ex)`), so these are two separate
// expansions.  The first one (`Eq`) recognises `#[eq(..)]` (is_match_cmp_attr: `eq` is recognised when `Eq` is
// derived), uses it, and REMOVES it from the item (remove_attrs).  The second expansion (`PartialEq`) therefore
// sees a bare `f32` field and generates the default `PartialEq::eq(&self.0, &other.0)`.
//
// Expected by the property: the field takes part in equality with its own type `f32`, which is not `Eq`
// -> `#[derive_ex(Eq)]` must be refused.  (With the two attributes in the other order it IS refused:
// error[E0277]: the trait bound `f32: Eq` is not satisfied.)
// Actual: compiles, `S: Eq`, `S(NAN) == S(NAN)` is false (and `S(0.0) == S(-0.0)` is true although the key that
// was checked, `to_bits`, tells them apart).
#[derive_ex::derive_ex(Eq)]
#[derive_ex::derive_ex(PartialEq)]
#[derive(Debug)]
struct S(#[eq(key = $.to_bits())] f32);

fn assert_is_eq<T: Eq>() {}

fn main() {
    assert_is_eq::<S>();
    let s = S(f32::NAN);
    println!("S: Eq, S(NAN) == S(NAN): {}", s == s);
    println!("S(0.0) == S(-0.0): {}", S(0.0) == S(-0.0));
    assert!(s == s, "an `Eq` type whose `==` is not reflexive");
}
