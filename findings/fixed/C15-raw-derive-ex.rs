// repaired by 4432970 (F34): #[r#derive_ex(..)] was not recognised
// (from the second independent defect hunt, seeded/hunt2/C15/demo2.rs)
// C15 demo 2 -- `#[r#derive_ex(..)]`: the raw-identifier spelling of the attribute name.
//
// `r#derive_ex` and `derive_ex` are the same name for rustc: `#[r#derive_ex(Clone)]` invokes the
// attribute macro, and under `#[derive(Ex)]` it is accepted as the derive's helper attribute `derive_ex`.
//
// Expected by the property: the same impls through either entry point, and whether the list is merged
// or split:  A, B, D1, D2 below all implement Clone and Default.
//
// Actual:
//   - attribute macro (A, B): both impls are generated (the second `#[r#derive_ex(..)]` is not recognised as a
//     further list, it is left on the item and expanded as a separate invocation of the attribute macro).
//   - `#[derive(Ex)]` (D1): `#[r#derive_ex(Clone, Default)]` is silently ignored - NO impl at all, no diagnostic.
//   - `#[derive(Ex)]` with a split list (D2): `#[derive_ex(Clone)] #[r#derive_ex(Default)]` -> Clone only.
//   The macro looks the attribute up with `attr.path() == &parse_quote!(derive_ex)`
//   (item_type.rs, parse_derive_ex_attrs), and `Ident` equality distinguishes `r#derive_ex` from `derive_ex`.
//
// Symptom: impls silently missing (no error from the macro). The program detects the impls at compile time,
// prints the table and panics on the assertion; using `D1::default()` directly would be the compile error
// "no function or associated item named `default` found for struct `D1`".

#![allow(dead_code)]
use std::marker::PhantomData;

struct Probe<T>(PhantomData<T>);
trait Fallback {
    const CLONE: bool = false;
    const DEFAULT: bool = false;
}
impl<T> Fallback for Probe<T> {}
impl<T: Clone> Probe<T> {
    const CLONE: bool = true;
}
struct ProbeD<T>(PhantomData<T>);
impl<T> Fallback for ProbeD<T> {}
impl<T: Default> ProbeD<T> {
    const DEFAULT: bool = true;
}

mod attr {
    use derive_ex::derive_ex;
    #[r#derive_ex(Clone, Default)]
    pub struct A(pub u8);

    #[derive_ex(Clone)]
    #[r#derive_ex(Default)]
    pub struct B(pub u8);
}
mod derive {
    use derive_ex::Ex;
    #[derive(Ex)]
    #[r#derive_ex(Clone, Default)]
    pub struct D1(pub u8);

    #[derive(Ex)]
    #[derive_ex(Clone)]
    #[r#derive_ex(Default)]
    pub struct D2(pub u8);
}

fn main() {
    let a = (<Probe<attr::A>>::CLONE, <ProbeD<attr::A>>::DEFAULT);
    let b = (<Probe<attr::B>>::CLONE, <ProbeD<attr::B>>::DEFAULT);
    let d1 = (<Probe<derive::D1>>::CLONE, <ProbeD<derive::D1>>::DEFAULT);
    let d2 = (<Probe<derive::D2>>::CLONE, <ProbeD<derive::D2>>::DEFAULT);
    println!("(impl Clone, impl Default)");
    println!("attribute, merged  #[r#derive_ex(Clone, Default)]              : {:?}", a);
    println!("attribute, split   #[derive_ex(Clone)] #[r#derive_ex(Default)] : {:?}", b);
    println!("derive(Ex), merged #[r#derive_ex(Clone, Default)]              : {:?}", d1);
    println!("derive(Ex), split  #[derive_ex(Clone)] #[r#derive_ex(Default)] : {:?}", d2);
    assert_eq!(a, (true, true));
    assert_eq!(b, (true, true));
    assert_eq!(d1, (true, true), "derive(Ex) ignored #[r#derive_ex(..)]");
    assert_eq!(d2, (true, true), "derive(Ex) ignored the second list");
}
