// repaired by 4432970 (F34): a second list written #[derive_ex::derive_ex(..)] was not merged
// (from the second independent defect hunt, seeded/hunt2/C02/demo1.rs)
// C02 demo 1 -- two `derive_ex` attributes on one item, written with a path.
//
// Expected by the property: an accepted combination gives coherent impls, i.e.
//     a == b   iff   a.partial_cmp(&b) == Some(Ordering::Equal)
// `#[ord(ignore)]` on field `a` must take `a` out of PartialOrd *and* PartialEq (the
// documentation: "You cannot change whether `ignore` is applied by the trait").
// With the attribute spelt `#[derive_ex(PartialOrd)] #[derive_ex(PartialEq)]` (bare name) this is
// what happens: the first expansion collects every `#[derive_ex(..)]` of the item.
//
// Actual: the attributes are only collected when their path is literally the single identifier
// `derive_ex` (`attr.path() == parse_quote!(derive_ex)` in item_type.rs / `is_match`).  Written
// as `#[derive_ex::derive_ex(..)]` (no `use` needed, a perfectly ordinary spelling), the first
// expansion derives PartialOrd alone, consumes and strips the helper attribute `#[ord(ignore)]`,
// and re-emits the item; the second expansion derives PartialEq from an item that no longer
// carries `#[ord(ignore)]`.  Nothing is refused at compile time.
//
// Symptom: WRONG RUN-TIME RESULT (no compile error, no macro panic):
//     X{a:1,b:0} == X{a:2,b:0}            is false
//     X{a:1,b:0}.partial_cmp(X{a:2,b:0})  is Some(Equal)
use std::cmp::Ordering;

#[derive_ex::derive_ex(PartialOrd)]
#[derive_ex::derive_ex(PartialEq)]
#[derive(Debug)]
struct X {
    #[ord(ignore)]
    a: u8,
    b: u8,
}

// The same type with the bare spelling, for comparison (coherent).
mod bare {
    use derive_ex::derive_ex;
    #[derive_ex(PartialOrd)]
    #[derive_ex(PartialEq)]
    #[derive(Debug)]
    pub struct X {
        #[ord(ignore)]
        pub a: u8,
        pub b: u8,
    }
}

fn main() {
    let (x, y) = (bare::X { a: 1, b: 0 }, bare::X { a: 2, b: 0 });
    println!("bare spelling: x == y: {}, x.partial_cmp(&y): {:?}", x == y, x.partial_cmp(&y));
    assert_eq!(x == y, x.partial_cmp(&y) == Some(Ordering::Equal));

    let (x, y) = (X { a: 1, b: 0 }, X { a: 2, b: 0 });
    println!("path spelling: x == y: {}, x.partial_cmp(&y): {:?}", x == y, x.partial_cmp(&y));
    assert_eq!(
        x == y,
        x.partial_cmp(&y) == Some(Ordering::Equal),
        "C02 violated: `==` and `partial_cmp` disagree on {x:?}, {y:?}"
    );
}
