// demo1 -- C16 (expansion yields well-formed Rust items or a compile_error!)
//
// Input: a type-level default value `#[default(EXPR)]` whose EXPR starts with a
// brace-delimited macro call and continues with a binary operator:
//
//     #[default(one!{} + S(1))]
//
// `one!{} + S(1)` is an ordinary, well-typed expression of type `S` (it is accepted
// verbatim in `let _: S = one!{} + S(1);` and in `S::hand_written()` below).
//
// Expected by the property: the derived `impl Default for S` is well-formed Rust
// (e.g. `fn default() -> Self { (one!{} + S(1)) }`), and `S::default() == S(2)`.
//
// Actual: the macro pastes the expression unparenthesised as the tail of the body,
//     fn default() -> Self { one!{} + S(1) }
// where rustc reads `one!{}` as a complete macro *statement* and then finds `+ S(1)`.
// The generated item is syntactically ill-formed:
//     error: expected expression, found `+`
// (derive-ex/src/item_type.rs, HelperAttributeForDefault::value_as_tail: `is_block_like`
//  knows `{..}`, `if`, `match`, `unsafe`, `loop`, `while`, `for`, `const {}`, `try {}`,
//  but not `Expr::Macro` with brace delimiter.  The same happens with `as`, `=`, `==`, `<`, `+=`
//  after the macro; with `-`, `*`, `&` the output parses but means `one!{}; -S(1)`.)
//
// Symptom: COMPILE ERROR (syntax error inside the generated impl), no panic.
//
// Writing `#[default((one!{} + S(1)))]` instead compiles and prints `S(2)`.

use derive_ex::derive_ex;
use std::ops::Add;

macro_rules! one {
    {} => { S(1) };
}

#[derive(Debug, PartialEq)]
#[derive_ex(Default)]
#[default(one!{} + S(1))]
struct S(u8);

impl Add for S {
    type Output = S;
    fn add(self, rhs: S) -> S {
        S(self.0 + rhs.0)
    }
}

impl S {
    // the very same expression in ordinary expression position is fine
    fn hand_written() -> S {
        let v: S = one!{} + S(1);
        v
    }
}

fn main() {
    assert_eq!(S::hand_written(), S(2));
    assert_eq!(S::default(), S(2));
    println!("{:?}", S::default());
}
