// repaired by 35f4907 (F36): the re-emitted item lost the invisible group of a $t:ty fragment
// (from the second independent defect hunt, seeded/hunt2/C18/demo1.rs)
// C18 demo 1 -- symptom: COMPILE ERROR (in the struct that the attribute macro re-emits).
//
// Expected by the property: `Deref`/`DerefMut` derived on the single-field tuple struct `X<'a>(&'a $t)`
// give `Target = &'a (dyn A + Send)` and a reference to field 0.  The struct is produced by a
// `macro_rules!` macro and its field type comes from a `$t:ty` fragment (`dyn A + Send`).  Without the
// `#[derive_ex(..)]` attribute the program is valid Rust (rustc keeps the invisible group around `$t`),
// with `#[derive(Ex)] #[derive_ex(Deref, DerefMut)]` it works as well, and an identity attribute macro
// accepts it too.
//
// Actual: with the attribute form `#[derive_ex(Deref, DerefMut)]` compilation fails with
//     error: ambiguous `+` in a type
// The generated impl is fine (`type Target = &'a (dyn A + Send);`, see `dump`), but the macro re-emits
// the *item* from its syn AST (`quote!(#item #ts)` in lib.rs `build`): the invisible group around `$t`
// is re-created as a proc-macro group, which rustc ignores, so the struct becomes
// `struct X<'a>(pub &'a dyn A + Send);`.  The fix af7bd11 only unwrapped the groups in the copy the impl
// is generated from, not in the item that is emitted.
use derive_ex::derive_ex;
use std::ops::{Deref, DerefMut};

pub trait A {
    fn get(&self) -> u8;
}
impl A for u8 {
    fn get(&self) -> u8 {
        *self
    }
}

macro_rules! newtype {
    ($name:ident, $t:ty) => {
        #[derive_ex(Deref, DerefMut)]
        pub struct $name<'a>(pub &'a $t);
    };
}
newtype!(X, dyn A + Send);

fn main() {
    let v = 7u8;
    let w = 9u8;
    let mut x = X(&v);
    assert_eq!(x.get(), 7);
    let p: *const &(dyn A + Send) = &x.0;
    let q: *const &(dyn A + Send) = Deref::deref(&x);
    assert!(std::ptr::eq(p, q));
    *DerefMut::deref_mut(&mut x) = &w;
    assert_eq!(x.0.get(), 9);
    println!("ok");
}
