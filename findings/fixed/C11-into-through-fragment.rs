// repaired by 35f4907 (F36): Into was not applied to a literal / path that arrives through a fragment
// (from the second independent defect hunt, seeded/hunt2/C11/demo1.rs)
// demo1 -- C11: `Into` is not applied to a string literal / a path that reaches `#[default(..)]`
//          through a `macro_rules!` fragment (`$e:expr`, `$l:literal`, `$p:path`).
//
// Expected by the property: a field's `#[default(expr)]` is converted with `Into` exactly when the
//   expression is a string literal or a path.  `mk!(A, "abc", S)` below writes `#[default("abc")]` and
//   `#[default(S)]` on two `String` fields (the doc's own examples: `#[default("abc")] String`,
//   `#[default(S)] String`), only through macro fragments, so `A::default()` must be
//   `A { a: "abc".into(), b: S.into(), c: S.into() }` -- exactly what the hand-written `mk_hand!` produces.
// Actual: rustc hands the fragment to the proc-macro wrapped in an invisible (None-delimited) group, syn
//   parses it as `Expr::Group`, `need_into` (derive-ex/src/item_type.rs, `HelperAttributeForDefault::value`)
//   only matches `Expr::Lit(Str)` / `Expr::Path`, and the value is emitted without `Into::into`.
// Symptom: COMPILE ERROR (E0308 mismatched types: expected `String`, found `&str` / found `S`), in the
//   attribute form and in the `#[derive(Ex)]` form alike.  (The same fix was already made for `$t:ty`
//   field types; the `$e:expr` side was left out.)
use derive_ex::{derive_ex, Ex};

pub struct S;
impl From<S> for String {
    fn from(_: S) -> String {
        "s".to_string()
    }
}

// What the user writes.
macro_rules! mk {
    ($n:ident, $lit:literal, $p:path, $e:expr) => {
        #[derive_ex(Default)]
        #[derive(Debug, PartialEq)]
        struct $n {
            #[default($lit)]
            a: String,
            #[default($p)]
            b: String,
            #[default($e)]
            c: String,
        }
    };
}
// The same with `#[derive(Ex)]`.
macro_rules! mk_derive {
    ($n:ident, $e:expr) => {
        #[derive(Ex, Debug, PartialEq)]
        #[derive_ex(Default)]
        struct $n(#[default($e)] String);
    };
}
// The hand-written impl the property describes: valid Rust, compiles and runs.
macro_rules! mk_hand {
    ($n:ident, $lit:literal, $p:path, $e:expr) => {
        #[derive(Debug, PartialEq)]
        struct $n {
            a: String,
            b: String,
            c: String,
        }
        impl ::core::default::Default for $n {
            fn default() -> Self {
                $n {
                    a: ::core::convert::Into::<String>::into($lit),
                    b: ::core::convert::Into::<String>::into($p),
                    c: ::core::convert::Into::<String>::into($e),
                }
            }
        }
    };
}

mk!(A, "abc", S, S);
mk_derive!(B, "abc");
mk_hand!(H, "abc", S, S);

fn main() {
    assert_eq!(H::default(), H { a: "abc".into(), b: "s".into(), c: "s".into() });
    assert_eq!(A::default(), A { a: "abc".into(), b: "s".into(), c: "s".into() });
    assert_eq!(B::default(), B("abc".into()));
    println!("ok");
}
