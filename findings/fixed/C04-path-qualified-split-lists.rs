// repaired by 4432970 (F34)
// (from the second independent defect hunt, seeded/hunt2/C04/demo1.rs)
// demo1 -- C04: field-/variant-level `#[derive_ex(Trait(bound(..)))]` (levels 5, 6, 8, 9) is silently lost
// when the type carries two `#[derive_ex::derive_ex(..)]` attributes written with the crate path.
//
// Expected (by the property): the field-level `#[derive_ex(Debug(bound(T)))]` on `next` (level 8) is reached
// (levels 1-7 are absent), so it contributes `T: Debug` and stops; the default bound
// `Option<Box<Node<T>>>: Debug` must NOT be emitted.  That is what happens for `Clone`, and what happens for
// both traits when they are listed in ONE attribute (`#[derive_ex::derive_ex(Clone, Debug)]`, see `Ok` below).
//
// Actual: the first attribute-macro invocation (`Clone`) does not recognise `#[derive_ex::derive_ex(Debug)]` as
// one of its own attributes (it only matches the bare ident `derive_ex`), but it strips *every* `#[derive_ex(..)]`
// helper from the fields/variants before re-emitting the item.  The second invocation (`Debug`) therefore never
// sees the field-level bound and falls back to the default bound `Option<Box<Node<T>>>: Debug`.
//
// The same happens to the comparison helper attributes at every placement (levels 1, 4, 7): with
// `#[derive_ex::derive_ex(PartialEq)] #[derive_ex::derive_ex(Hash)]` the first invocation strips `#[eq(bound(..))]`
// and `#[ord(bound(..))]` (it recognises them for PartialEq), so the Hash impl never sees them.
// Any spelling that yields two separate invocations triggers it: the crate path as here, or
// `use derive_ex::derive_ex as dx;` with `#[dx(Clone)] #[dx(Debug)]`.
//
// Symptom: COMPILE ERROR (E0275, overflow evaluating `Option<Box<Node<u8>>>: Debug`) in a program that is
// fine with a hand-written impl / with the single-attribute spelling.  (With a non-recursive type the symptom is
// a silently wrong where-clause instead.)

#![allow(dead_code)]
use std::fmt::Debug;

// reference: one attribute -> works
#[derive_ex::derive_ex(Clone, Debug)]
struct Ok<T> {
    value: T,
    #[derive_ex(Debug(bound(T)), Clone(bound(T)))]
    next: Option<Box<Ok<T>>>,
}

// same thing, split over two attributes -> field-level Debug bound is lost
#[derive_ex::derive_ex(Clone)]
#[derive_ex::derive_ex(Debug)]
struct Node<T> {
    value: T,
    #[derive_ex(Debug(bound(T)), Clone(bound(T)))]
    next: Option<Box<Node<T>>>,
}

fn show(x: &impl Debug) -> String {
    format!("{x:?}")
}

fn main() {
    let a = Ok { value: 1u8, next: None };
    println!("{}", show(&a.clone()));
    let n = Node { value: 1u8, next: None };
    println!("{}", show(&n.clone()));
}
