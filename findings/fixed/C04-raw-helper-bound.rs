// repaired by 4432970 (F34): #[r#debug(bound(T))] under derive(Ex) was silently ignored
// (from the second independent defect hunt, seeded/hunt2/C04/demo3.rs)
// demo3 -- C04: with `#[derive(Ex)]`, a helper attribute whose name is spelled as a raw identifier
// (`#[r#debug(..)]`, `#[r#default(..)]`, `#[r#eq(..)]`, `#[r#derive_ex(..)]`, ...) is accepted by rustc as the derive's
// helper attribute (`r#debug` and `debug` are the same name to the compiler) but is not recognised by the macro
// (it compares the textual form "r#debug" with "debug"), so its `bound(..)` -- level 1/4/7 (or 5/6/8/9 for
// `r#derive_ex`) -- is silently ignored.
//
// Expected (by the property): on field `next` the helper attribute `#[r#debug(bound(T))]` is level 7; it is reached,
// contributes `T: Debug` and stops; the default bound `Option<Box<Node<T>>>: Debug` must not be emitted --
// exactly as for `Plain`, which differs only in writing `debug` instead of `r#debug`.
//
// Actual: the attribute is skipped, the default bound is emitted:
//     impl<T> Debug for Node<T> where T: Debug, Option<Box<Node<T>>>: Debug
//
// Symptom: COMPILE ERROR (E0275 overflow evaluating `Node<u8>: Debug`); for non-recursive types a silently wrong
// where-clause.  (Exotic spelling, but legal Rust: the crate already un-raws identifiers elsewhere.)

#![allow(dead_code)]
use derive_ex::Ex;

#[derive(Ex)]
#[derive_ex(Debug)]
struct Plain<T> {
    value: T,
    #[debug(bound(T))]
    next: Option<Box<Plain<T>>>,
}

#[derive(Ex)]
#[derive_ex(Debug)]
struct Node<T> {
    value: T,
    #[r#debug(bound(T))]
    next: Option<Box<Node<T>>>,
}

fn show(x: &impl std::fmt::Debug) -> String {
    format!("{x:?}")
}

fn main() {
    println!("{}", show(&Plain { value: 1u8, next: None }));
    println!("{}", show(&Node { value: 1u8, next: None }));
}
