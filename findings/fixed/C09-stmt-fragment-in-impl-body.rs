// repaired by 3739cde (F38)
// (from the third independent defect hunt, seeded/hunt3/C09/demo2.rs)
// C09 demo 2 -- the user's impl is re-emitted damaged when its body contains a `$s:stmt`
// fragment of a `macro_rules!` macro that is a `let` statement (leftover of the fix
// "keep the grouping of `$e:expr` and `$t:ty` fragments of `macro_rules!` macros").
//
// Expected by the property: the derived `&X + &X` etc. forward to the user's impl, which is kept
// as written.  Without `#[derive_ex(Add)]` the impl below compiles and `X{v:1} + X{v:2}` is X{v:6}.
//
// Actual: COMPILE ERROR ("expected expression, found `let` statement").  `ResolveGroups`
// (syn_utils.rs, run over the whole item in lib.rs::build, bodies included) finds the invisible
// group around the `$s` fragment as `Expr::Group(Expr::Let)`, which is not in its list of atoms,
// and replaces it by `(let y = 3)`.
use derive_ex::derive_ex;
use std::ops::Add;

#[derive(Clone, Debug)]
struct X {
    v: u32,
}

macro_rules! impl_add {
    ($y:ident, $s:stmt) => {
        #[derive_ex(Add)]
        impl Add for X {
            type Output = X;
            fn add(self, rhs: X) -> X {
                $s;
                X { v: self.v + rhs.v + $y }
            }
        }
    };
}
impl_add!(y, let y = 3);

fn main() {
    println!("{:?}", X { v: 1 } + X { v: 2 }); // expected X { v: 6 }
    println!("{:?}", &X { v: 1 } + &X { v: 2 }); // expected X { v: 6 }
}
