// repaired by 35f4907 (F36): [u8; $n * 2] lost the group of $n
// (from the second independent defect hunt, seeded/hunt2/C18/demo3.rs)
// C18 demo 3 -- symptom: WRONG RUN-TIME RESULT with the attribute form (the struct itself is silently
// changed), COMPILE ERROR with the derive form (`--cfg derive_form`): `Target` is not the field's type.
//
// The struct is produced by a `macro_rules!` macro; the array length of its single field is `$n * 2` with
// `$n:expr`.  For `$n = 1 + 1` rustc keeps the invisible group around the fragment: the field type is
// `[u8; (1 + 1) * 2]` = `[u8; 4]` (see `Plain`, which is the same struct without the attribute).
//
// Expected by the property: `Target` = the field's type = `[u8; 4]`, `deref` returns a reference to the field.
//
// Actual:
//  * `#[derive(Ex)] #[derive_ex(Deref, DerefMut)]` (compile with `--cfg derive_form`): the impl is generated
//    from tokens in which the invisible group is re-created as a proc-macro group, which rustc ignores, so
//    `type Target = [u8; 1 + 1 * 2]` = `[u8; 3]` while the field is `[u8; 4]`:
//        error[E0308]: mismatched types ... expected an array with a size of 3, found one with a size of 4
//    (`DropTrailingPlus` unwraps `Type::Group` only, not `Expr::Group`.)
//  * `#[derive_ex(Deref, DerefMut)]` (default): the item is re-emitted from the syn AST as well, so the
//    *struct* becomes `struct X(pub [u8; 1 + 1 * 2])`: it compiles, but the field - and `Target` - are
//    `[u8; 3]`, not the `[u8; 4]` the user wrote: `size_of::<X>()` is 3, the assertion below fails.
use derive_ex::derive_ex;
#[allow(unused_imports)]
use derive_ex::Ex;
use std::ops::Deref;

macro_rules! plain {
    ($name:ident, $n:expr) => {
        pub struct $name(pub [u8; $n * 2]);
    };
}
#[cfg(not(derive_form))]
macro_rules! derived {
    ($name:ident, $n:expr) => {
        #[derive_ex(Deref, DerefMut)]
        pub struct $name(pub [u8; $n * 2]);
    };
}
#[cfg(derive_form)]
macro_rules! derived {
    ($name:ident, $n:expr) => {
        #[derive(Ex)]
        #[derive_ex(Deref, DerefMut)]
        pub struct $name(pub [u8; $n * 2]);
    };
}
plain!(Plain, 1 + 1);
derived!(X, 1 + 1);

fn main() {
    println!(
        "size_of::<Plain>() = {}, size_of::<X>() = {}, size_of::<<X as Deref>::Target>() = {}",
        std::mem::size_of::<Plain>(),
        std::mem::size_of::<X>(),
        std::mem::size_of::<<X as Deref>::Target>()
    );
    assert_eq!(std::mem::size_of::<Plain>(), 4);
    assert_eq!(std::mem::size_of::<<X as Deref>::Target>(), 4, "Target is not the type of the field as written");
    println!("ok");
}
