// repaired by a7ea894 (F35)
// (from the second independent defect hunt, seeded/hunt2/C01/extra_lint.rs)
#![deny(warnings)]
use derive_ex::derive_ex;
use std::cmp::Ordering;
fn c(a: &u8, b: &u8) -> Ordering { a.cmp(b) }
#[derive_ex(PartialEq, Eq, PartialOrd, Ord, Hash, Debug, Clone, Default)]
pub struct S { #[ord(key = $.len())] pub a: String, #[ord(ignore)] pub b: u8, #[ord(reverse)] pub c: u8 }
#[derive_ex(PartialEq, Eq, PartialOrd, Ord, Debug, Clone)]
pub enum E { A { #[ord(key = $.len())] a: String, #[ord(ignore)] b: u8, #[ord(reverse)] c: u8 }, B(#[ord(ignore)] u8), C }
#[derive_ex(PartialEq, Eq, PartialOrd, Ord)]
pub struct T(#[ord(by = c)] pub u8);
#[derive_ex(PartialEq, Eq, PartialOrd, Ord)]
pub struct U { #[ord(by = c)] pub val: u8 }
fn main() {
    println!("{:?}", U{val:1}.cmp(&U{val:2}));
}
