// repaired by a7ea894 (F35): per-field names carried the user's span, non_snake_case under deny(warnings)
// (from the second independent defect hunt, seeded/hunt2/C06/demo2.rs)
// demo2 -- derived `Hash` leaks `non_snake_case` lints into the user's crate.
//
// Symptom: COMPILE ERROR under `#![deny(warnings)]` / `#![deny(non_snake_case)]` / `RUSTFLAGS=-D warnings`
// (a plain warning pointing at the user's field otherwise).
//
// The names the macro makes up per field are built with `format_ident!("{}_{}", prefix, field_ident)`;
// `format_ident!` gives the result the span of its first `Ident` argument, i.e. the span of the
// *user's field name*, so rustc treats the made-up name as user-written code and lints it:
//
//   * `#[hash(by = ...)]` on ANY named field: the helper is called `__hash_` + `_` + name = `__hash__a`
//     ("function `__hash__a` should have a snake case name").
//   * an enum variant field whose name starts with `_` (`_marker`, `_pad`, ... -- very common):
//     the pattern binder is `__self` + `_` + `_marker` = `__self__marker`
//     ("variable `__self__marker` should have a snake case name").
//
// Expected by the property: both types get a `Hash` impl that feeds, in order, what
// `hash(by = ..)` writes for `a` / the fields `a` and `_marker`. A hand-written impl compiles
// without diagnostics under the same lint level. Actual: the crate does not compile.
// (Tuple fields are not affected: their made-up names carry the macro's own span.)
//
// Build:
//   rustc --edition 2021 --extern derive_ex=/tmp/wt-C06n/target/debug/libderive_ex.so -o /tmp/hunt_C06 hunt/demo2.rs
#![deny(warnings)]
use derive_ex::derive_ex;
use std::hash::{Hash, Hasher};
use std::marker::PhantomData;

#[derive_ex(Hash)]
struct S {
    #[hash(by = |x: &f64, s| x.to_bits().hash(s))]
    a: f64,
}

#[derive_ex(Hash)]
enum E<T> {
    V { a: u8, _marker: PhantomData<T> },
}

fn main() {
    let mut h = std::collections::hash_map::DefaultHasher::new();
    S { a: 1.0 }.hash(&mut h);
    E::V::<u8> { a: 1, _marker: PhantomData }.hash(&mut h);
    println!("{}", h.finish());
}
