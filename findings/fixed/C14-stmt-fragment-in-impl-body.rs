// repaired by 3739cde (F38): a regression of F36 (let statement parenthesised)
// (from the third independent defect hunt, seeded/hunt3/C14/demo2.rs)
// C14 demo 2 -- a `$s:stmt` fragment that is a `let` statement, in the body of an `impl`, is re-emitted as `(let ..);`.
//
// Property: the annotated item is re-emitted exactly as written.  The `impl Add for X` below is legal on its own
// (remove the `#[derive_ex(AddAssign)]` line: the program compiles and prints `X(22)`).
//
// Actual: the `stmt` fragment arrives in an invisible group; syn reads `«let k = 10»;` as an expression statement
// `Expr::Group(Expr::Let)`, and ResolveGroups (syn_utils.rs, resolve_expr_group) replaces every group whose content is
// not an "atom" by a parenthesized expression.  The re-emitted body is
//     fn add(self, r: X) -> X { (let k = 10); X((self.0 + r.0) * (k + 1)) }
// (seen with -Zunpretty=expanded).  A `let .. else ..` statement makes the parse of the whole item fail instead.
//
// Symptom: COMPILE ERROR in the user's own, re-emitted impl
//   error: expected expression, found `let` statement
//
// rustc --edition 2021 --extern derive_ex=/tmp/wt-C14o/target/debug/libderive_ex.so -o /tmp/hunt_C14 hunt/demo2.rs
use derive_ex::derive_ex;
use std::ops::Add;

#[derive(Debug, Clone, Copy, PartialEq)]
struct X(u32);

macro_rules! add_with {
    ($setup:stmt, $scale:expr) => {
        #[derive_ex(AddAssign)]
        impl Add for X {
            type Output = X;
            fn add(self, r: X) -> X {
                $setup;
                X((self.0 + r.0) * $scale)
            }
        }
    };
}
add_with!(let k = 10, k + 1);

fn main() {
    assert_eq!(X(1) + X(1), X(22));
    println!("{:?}", X(1) + X(1));
}
