// demo3 -- C14 violated (minor, contrived spelling): COMPILE ERROR (no panic).
//
// Expected by the property: with `#[derive_ex(Default)]` the helper attribute `default` on a
// field is consumed and removed from the re-emitted item.  `r#default` is the same identifier
// as `default` (`default` is not a keyword; rustc resolves `#[r#default]` to the same helper -
// with `#[derive(Ex)] #[derive_ex(Default)]` this very struct compiles), so
// `#[r#default(5)]` is a legal spelling of the helper and `S::default().x` should be 5.
//
// Actual: `HelperAttributeKinds::is_match` compares `ident.to_string()` ("r#default") with
// "default", and `parse_single` uses `path.is_ident("default")`: the attribute is neither
// read nor removed.  It is re-emitted on the field and rustc rejects it:
//
//   error: cannot find attribute `default` in this scope
//
// (The same holds for `r#debug`, `r#ord`, ... and for a field-level `#[r#derive_ex(..)]`.
//  Under `#[derive(Ex)]` the attribute is accepted by rustc but silently ignored by the
//  macro: the program prints `S { x: 0 }`.)
#![allow(dead_code)]
use derive_ex::derive_ex;

#[derive_ex(Default, Debug)]
struct S {
    #[r#default(5)]
    x: u8,
}

fn main() {
    println!("{:?}", S::default());
}
