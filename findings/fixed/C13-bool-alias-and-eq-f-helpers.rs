#![deny(warnings)]
#![allow(non_camel_case_types, dead_code)]
use derive_ex::derive_ex;
type bool = u8;
type usize = u64;
fn _eq(x: &u32) -> u32 { *x % 10 }
fn _f(x: &u32) -> u32 { *x % 10 }
#[derive_ex(PartialEq, Eq, PartialOrd, Ord, Hash)]
pub enum E { A(#[ord(key = _eq(&$))] u32), B(#[ord(key = _f(&$))] u32), C }
#[derive_ex(PartialEq, Eq)]
pub struct S(#[eq(key = _eq(&$))] u32, #[eq(by = |a: &u8, b: &u8| a == b)] u8);
fn main() { assert!(E::A(1) == E::A(11)); assert!(E::A(1) < E::B(0)); let _: bool = 1; let _: usize = 2; }
