// C12 demo 3 -- the struct is written by a `macro_rules!` macro and a field type arrives as `$t:ident` / `$t:tt`.
//
// Expected (property C12): drop-in for the standard derives; with `#[derive(..)]` this very common pattern compiles and
// runs (build with `--cfg use_std`).
//
// Actual: COMPILE ERROR in the impls generated for PartialEq, Eq, PartialOrd, Ord and Hash:
//   error[E0424]: expected value, found module `self`
//   error[E0425]: cannot find value `__other` / `__this` / `__state` in this scope
//     ("an identifier with the same name is defined here, but is not accessible due to macro hygiene")
// compare_op.rs builds the field accesses with `quote_spanned!(field.span()=> (self.#member))`,
// `(__other.#member)`, `(__this.#member)` and `Hash::hash(&(..), __state)`, where `field.span()` is the span of the
// field's *type*.  `self`, `__other`, `__this`, `__state` are local variables and therefore hygienic: they get the syntax
// context of the type token (here the caller of `new_type!`), while the `fn eq(&self, __other: &Self)` that declares them
// has the context of the `#[derive_ex]` attribute (inside the macro_rules body).  As soon as the two differ the names
// do not resolve.  (Clone, Debug and Default do not use `quote_spanned!` and are fine.)
#[cfg(not(use_std))]
use derive_ex::derive_ex;

macro_rules! new_type {
    ($name:ident, $inner:ident) => {
        #[cfg_attr(use_std, derive(Clone, Debug, Default, PartialEq, Eq, PartialOrd, Ord, Hash))]
        #[cfg_attr(not(use_std), derive_ex(Clone, Debug, Default, PartialEq, Eq, PartialOrd, Ord, Hash))]
        pub struct $name {
            pub value: $inner,
        }
    };
}
new_type!(Meters, u32);

fn main() {
    let a = Meters { value: 3 };
    assert_eq!(a.clone(), a);
    assert!(Meters::default() < a);
    println!("{:?}", a);
}
