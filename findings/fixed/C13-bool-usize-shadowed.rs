// demo3 -- C13 (hygiene): the generated code names the primitive types `bool` and `usize` by their bare names
//
// Symptom: COMPILE ERROR (E0053 / E0308) in a program that is valid Rust.
//
// Expected by the property: shadowing `core` type names at the use site changes nothing.  `bool` and `usize` are
// ordinary names of the type namespace (`core::primitive::bool`, `core::primitive::usize`) with the *lowest*
// priority: any item, import or generic parameter of that name shadows them.  Here the user has C-style aliases
// (`type bool = u8; type usize = u64;`, as in FFI bindings) in scope.  The standard derives are written against
// this (`::core::primitive::bool`, discriminant intrinsics) and compile; a hand-written impl would simply write
// `::core::primitive::bool`.
//
// Actual (derive-ex/src/item_type/compare_op.rs):
//   * build_partial_eq_body:  `fn eq(&self, __other: &Self) -> bool { .. }`           -> `bool` is the user's `u8`
//     (also the helper `fn __eq__x<__T>(..) -> bool` generated for `by = ..`)
//   * build_to_index_fn:      `let __to_index = |__this: &Self| -> usize { .. => 0usize, .. }` -> user's `u64`
//   so `#[derive_ex(PartialEq)]` on any type and `#[derive_ex(PartialOrd / Ord)]` on any enum are rejected.
//   The same happens when a *type parameter* is called `usize` / `bool` (`enum E<usize> { A(usize), B }`).
//
// Control:  rustc --cfg control ...   (the aliases are not imported)  -> compiles, prints `ok`
#![allow(non_camel_case_types, dead_code)]
use derive_ex::derive_ex;

mod ffi {
    pub type bool = u8;
    pub type usize = u64;
}
#[cfg(not(control))]
#[allow(unused_imports)]
use ffi::*;

#[derive_ex(PartialEq)]
struct P(u8);

#[derive_ex(PartialEq, Eq, PartialOrd, Ord)]
enum E {
    A(u8),
    B,
}

// the standard derives cope with the same environment
#[derive(PartialEq, Eq, PartialOrd, Ord, Hash, Clone, Debug, Default)]
enum StdE {
    A(u8),
    #[default]
    B,
}

fn main() {
    assert!(P(1) == P(1));
    assert!(E::A(3) < E::B && E::A(3) < E::A(4));
    assert!(StdE::A(3) < StdE::B);
    println!("ok");
}
