// repaired by 3739cde (F38): an annotated impl is emitted again token for token
// (from the third independent defect hunt, seeded/hunt3/C14/demo1.rs)
// C14 demo 1 -- a `$p:pat` fragment in the body of an `impl` loses its grouping when the impl is re-emitted.
//
// Property: the annotated item is re-emitted exactly as written.  The `impl Add for X` below is legal on its own
// (remove the `#[derive_ex(AddAssign)]` line: the program compiles and prints `X(200)`): `n @ $p` with
// `$p = 1 | 2` is the pattern `n @ (1 | 2)`, because a `pat` fragment is one pattern.
//
// Actual: `#[derive_ex(AddAssign)]` re-emits the impl through syn, which has no node for the invisible group around a
// `pat` fragment (ResolveGroups only repairs `ty` and `expr` fragments), so the arm comes out as `n @ 1 | 2 => ..`,
// that is `(n @ 1) | 2`.
//
// Symptom: COMPILE ERROR in the user's own, re-emitted impl
//   error[E0408]: variable `n` is not bound in all patterns   (+ E0381)
//
// rustc --edition 2021 --extern derive_ex=/tmp/wt-C14o/target/debug/libderive_ex.so -o /tmp/hunt_C14 hunt/demo1.rs
use derive_ex::derive_ex;
use std::ops::Add;

#[derive(Debug, Clone, Copy, PartialEq)]
struct X(u32);

macro_rules! boosted_add {
    ($boosted:pat) => {
        #[derive_ex(AddAssign)]
        impl Add for X {
            type Output = X;
            fn add(self, r: X) -> X {
                match self.0 + r.0 {
                    n @ $boosted => X(n * 100),
                    n => X(n),
                }
            }
        }
    };
}
boosted_add!(1 | 2);

fn main() {
    assert_eq!(X(1) + X(1), X(200));
    println!("{:?}", X(1) + X(1));
}
