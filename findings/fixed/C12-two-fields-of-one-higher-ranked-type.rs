// repaired by 842aab7 (F40): the same default bound stated twice is ambiguous (E0283)
// (from the third independent defect hunt, seeded/hunt3/C12/demo1.rs)
// demo1 — two fields of the same type with an elided (higher-ranked) lifetime that mentions a type parameter.
//
// Expected (C12): `#[derive_ex(Clone, Copy, Debug)]` without helper attributes is a drop-in for
// `#[derive(Clone, Copy, Debug)]`: the program compiles and prints `true false` / clones the handlers.
// (With `#[derive(Clone, Copy, Debug)]` / `#[derive(Clone)]` instead, this very program compiles and runs.)
//
// Actual: COMPILE ERROR.  The default bounds are put on the field types, one where-predicate per field, and
// identical field types are not merged: the impl gets `where (fn(&T) -> bool): Clone, (fn(&T) -> bool): Clone`.
// Each elided lifetime is its own `for<'a>` binder, rustc does not unify the two predicates and reports
//     error[E0283]: type annotations needed: cannot satisfy `for<'a> fn(&'a T) -> bool: Clone`
//     note: multiple `impl`s or `where` clauses satisfying `for<'a> fn(&'a T) -> bool: Clone` found
// (the same for Copy, Debug, PartialEq, Hash, .. and for `Rc<dyn Fn(&T)>` twice).
// A struct with one such field compiles; no lifetime parameter is involved at all (this is not the
// `&'a T` / `&'b T` case).
use derive_ex::derive_ex;
use std::rc::Rc;

#[derive_ex(Clone, Copy, Debug)]
pub struct Callbacks<T> {
    pub on_a: fn(&T) -> bool,
    pub on_b: fn(&T) -> bool,
}

#[derive_ex(Clone)]
pub struct Handlers<T> {
    pub a: Rc<dyn Fn(&T)>,
    pub b: Rc<dyn Fn(&T)>,
}

fn main() {
    fn f(x: &u8) -> bool {
        *x > 1
    }
    let c = Callbacks { on_a: f, on_b: f };
    let d = c.clone();
    println!("{:?} {}", (d.on_a)(&3), (c.on_b)(&0));

    let h = Handlers::<u8> { a: Rc::new(|_| ()), b: Rc::new(|_| ()) };
    let h2 = h.clone();
    (h2.a)(&1);
    (h2.b)(&1);
}
