// repaired by babcd8e (F33).  The operator impls generated from an annotated impl said `-> Self::Output`; when the self
// type of that impl is an enum with a variant named `Output` the path is ambiguous (deny-by-default lint
// `ambiguous_associated_items`): a user-chosen variant name decided whether the program compiles (C13; also C09, C20).
// Found by reading the model for what `tokOK` still admits behind `::` after F31.
#![allow(unused_imports, dead_code)]
mod from_assign {
    use derive_ex::derive_ex;
    use std::ops::{Add, AddAssign};
    #[derive(Clone, Copy, Debug, PartialEq)]
    pub enum E { Output, B }
    #[derive_ex(Add)]
    impl AddAssign<u8> for E { fn add_assign(&mut self, _r: u8) { *self = E::Output; } }
    pub fn run() { let e = E::B + 1u8; assert_eq!(e, E::Output); }
}
mod from_ref_form {
    use derive_ex::derive_ex;
    use std::ops::Add;
    #[derive(Clone, Copy, Debug, PartialEq)]
    pub enum E { Output, B }
    #[derive_ex(Add, AddAssign)]
    impl Add<&u8> for &E { type Output = E; fn add(self, _r: &u8) -> E { *self } }
    pub fn run() { let mut e = E::B + 1u8; e += &1u8; e += 1u8; assert_eq!(&e + 1u8, E::B); assert_eq!(e + &1u8, E::B); }
}
fn main() { from_assign::run(); from_ref_form::run(); println!("ok"); }
