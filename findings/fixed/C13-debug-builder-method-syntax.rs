// repaired by e98551f (F31); both helper traits of the original report are in scope at once
// demo2 -- C13 (hygiene): generated `Debug` code uses method-call syntax (`.finish()`, `.field(..)`), which is
// resolved against the traits that are in scope at the use site
//
// Symptom: COMPILE ERROR (E0308) -- and, with a differently written user trait, a WRONG RUN-TIME RESULT / panic.
//
// Expected by the property: names at the use site never change the meaning of the generated code.  The user has
// an ordinary blanket extension trait with a by-value method called `finish` in scope.  `#[derive(Debug)]` of std
// is not affected (it calls `::core::fmt::Formatter::debug_..._finish(..)` / `write_str` by path), and a
// hand-written `impl Debug` that calls `::core::fmt::DebugTuple::finish(&mut ..)` by path is fine as well.
//
// Actual: derive_ex generates (derive-ex/src/item_type.rs, build_debug_expr)
//
//     fn fmt(&self, __f: &mut ::core::fmt::Formatter) -> ::core::fmt::Result { __f.debug_tuple("Unit").finish() }
//
// The receiver of `.finish()` is a `DebugTuple` *value*; the inherent `DebugTuple::finish(&mut self)` needs an
// auto-ref, the user's `Finish::finish(self)` does not, so method lookup picks the user's trait method.
// Every field-less struct (`struct Unit;`, `struct Unit {}`) and every enum with a field-less variant is hit;
// with a by-value `field` method in scope the first `.field(..)` call of any struct is hit the same way.
//   * as written below: error[E0308] mismatched types (expected `Result<(), Error>`, found `DebugTuple`)
//   * if the user's trait is `fn finish(self) -> Result<(), core::fmt::Error>` the program compiles and the derived
//     `Debug::fmt` silently runs the user's function instead of `DebugTuple::finish`.
//
//
// Second mode:  rustc --cfg runtime ...   instead of `Finish`, a blanket trait with a by-value `field` method is in
// scope (`fn field(self, _: &dyn Debug) -> Self`).  The program compiles without any diagnostic and the derived impl
// computes something else: `Tup(1, 2)` is printed as `Tup` (WRONG RUN-TIME RESULT; std's derive prints `StdTup(1, 2)`).
//
// Control:  rustc --cfg control ...   (no user trait is imported)  -> compiles, prints
//           `Unit A B(1) StdUnit Tup(1, 2) StdTup(1, 2)`
#![allow(dead_code)]
use derive_ex::derive_ex;

mod ext {
    /// pipeline-style helper of the user: `x.tap(..).finish()`
    pub trait Finish: Sized {
        fn finish(self) -> Self {
            self
        }
    }
    impl<T> Finish for T {}

    /// another helper of the user, used in the second mode (`--cfg runtime`)
    pub trait Field: Sized {
        fn field(self, _value: &dyn core::fmt::Debug) -> Self {
            self
        }
    }
    impl<T> Field for T {}
}
#[allow(unused_imports)]
use ext::{Field, Finish};

#[derive_ex(Debug)]
struct Unit;

#[derive_ex(Debug)]
enum E {
    A,
    B(u8),
}

#[derive_ex(Debug)]
struct Tup(u8, u8);

#[derive(Debug)] // the standard derive copes with the same environment
struct StdUnit;
#[derive(Debug)]
struct StdTup(u8, u8);

fn main() {
    println!("{:?} {:?} {:?} {:?} {:?} {:?}", Unit, E::A, E::B(1), StdUnit, Tup(1, 2), StdTup(1, 2));
    assert_eq!(format!("{:?}", Tup(1, 2)), "Tup(1, 2)");
}
