// repaired by 5dd33c8 (F37): may_be_unsized did not look through (dyn Tr + Send)
// (from the third independent defect hunt, seeded/hunt3/C10/demo2.rs)
// C10 demo 2 -- symptom: COMPILE ERROR in the generated impl (E0308, `&(dyn Tr + Send)` is not `&dyn Debug`).
//
// Input: a struct whose unsized last field is a trait object with more than one bound, where the
// type comes from a `$t:ty` fragment of a `macro_rules!` macro (`m!(S, dyn Tr + Send)`), or is
// written in parentheses by hand (`(dyn Tr + Send)`).  The standard derive accepts both
// (`mod control`) and prints `S { a: 1, x: tr }`.
//
// Expected by the property: same output as the std derive.
// Actual: derive_ex's impl does not compile.  With a single bound (`m!(S1, dyn Tr)`) it does.
//
// Cause: commit 35f4907 ("keep the grouping of `$e:expr` and `$t:ty` fragments") turns the
// invisible group around `dyn Tr + Send` into a `Type::Paren` (syn_utils.rs, resolve_type_group);
// `may_be_unsized` (item_type.rs) only knows `Type::Slice | Type::TraitObject | Type::Path`, does
// not look through `Type::Paren`, so the last field is passed as `&self.x` instead of `&&self.x`
// and has to be coerced from `&(dyn Tr + Send)` to `&dyn Debug`.
#![allow(dead_code, unused_parens)]
use derive_ex::derive_ex;
use std::fmt::{self, Debug};

pub trait Tr {}
impl Tr for u8 {}
impl Debug for dyn Tr {
    fn fmt(&self, f: &mut fmt::Formatter<'_>) -> fmt::Result {
        f.write_str("tr")
    }
}
impl Debug for dyn Tr + Send {
    fn fmt(&self, f: &mut fmt::Formatter<'_>) -> fmt::Result {
        f.write_str("tr")
    }
}

mod control {
    use super::Tr;
    macro_rules! m {
        ($name:ident, $t:ty) => {
            #[derive(Debug)]
            pub struct $name {
                pub a: u8,
                pub x: $t,
            }
        };
    }
    m!(S1, dyn Tr);
    m!(S, dyn Tr + Send);
    #[derive(Debug)]
    pub struct P(pub u8, pub (dyn Tr + Send));
}

macro_rules! m {
    ($name:ident, $t:ty) => {
        #[derive_ex(Debug)]
        struct $name {
            a: u8,
            x: $t,
        }
    };
}
m!(S1, dyn Tr); // fine
m!(S, dyn Tr + Send); // error[E0308]

#[derive_ex(Debug)]
struct P(u8, (dyn Tr + Send)); // error[E0308]

fn main() {}
