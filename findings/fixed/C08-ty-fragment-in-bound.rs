// repaired by 35f4907 (F36): bound($t) with $t = <I>::Item
// (from the second independent defect hunt, seeded/hunt2/C08/demo3.rs)
// C08 demo 3 -- a `bound(..)` argument that comes from a `$t:ty` fragment of a `macro_rules!` macro.
//
// Expected by the property: `S<I>` gets the four `Add` impls, field-wise, with the bound
// `<I>::Item: Add<..>` asked for by `bound($t)` (the program prints "ok").  All user-written pieces are
// well-typed: the same struct with `bound(<I>::Item)` written directly (not through `$t`) compiles and
// prints "ok", and so does the macro version without `bound($t)` (see demo3_ok.rs) -- the crate already
// parenthesises `<I>::Item` in front of a where-predicate and already looks through the invisible group
// of a `$t:ty` *field type*.
//
// Actual: COMPILE ERROR in the generated code.  The arguments of `bound(..)` are parsed from the
// attribute and never go through `DropTrailingPlus` (the pass that unwraps `Type::Group`), so in
// `WhereClauseBuilder::build` the type is a `Type::Group`, not a `Type::Path` with a bare qself, and is
// not parenthesised; rustc drops the invisible group of proc-macro output and reads
// `where <I>::Item : ::core::ops::Add<..>` as generic parameters on the where-clause:
//   error: generic parameters on `where` clauses are reserved for future use
//   error[E0425]: cannot find crate `Item` in the list of imported crates
use derive_ex::derive_ex;

trait Tr {
    type Item;
}
impl Tr for u8 {
    type Item = i32;
}

macro_rules! mk {
    ($name:ident, $t:ty) => {
        #[derive_ex(Add, bound($t))]
        struct $name<I: Tr>($t);
    };
}
mk!(S, <I>::Item);

fn main() {
    let x = S::<u8>(1);
    let y = S::<u8>(10);
    assert_eq!((&x + &y).0, 11);
    assert_eq!((&x + S::<u8>(10)).0, 11);
    assert_eq!((S::<u8>(1) + &y).0, 11);
    assert_eq!((S::<u8>(1) + S::<u8>(10)).0, 11);
    assert_eq!((x.0, y.0), (1, 10));
    println!("ok");
}
