// repaired by 78498b4 (F32)
// demo1 -- `Self` inside the free function generated for `Eq`.                 SYMPTOM: compile error
//
// Expected by C20: derive_ex accepts this item without a message of its own; the `key` expression
//   `Self::norm(&$)` is well-typed (the very same attribute is accepted and works for
//   `#[derive_ex(PartialEq)]`, where it lands inside `impl PartialEq for X`, see `Control` below), and the
//   field type `PhantomData<(Self, T)>` is legal Rust and implements Eq.  So the generated code must compile.
// Actual: `#[derive_ex(Eq)]` puts its per-field check into a *free* function
//   `const _: () = { fn _f<..>(__this: &X) where .. { .. } };`   (compare_op.rs, build_compare_op).
//   Only the generics get `Self` expanded (expand_self); the `key = ...` template and the field types that
//   are pushed into the where-clause (push_bounds_for_field) are copied verbatim.  `Self` does not exist in a
//   free function, so rustc rejects the generated code:
//     error[E0433]: cannot find `Self` in this scope          (X, through the key)
//     error[E0411]: cannot find type `Self` in this scope       (Y, through the generated where-clause)
use derive_ex::derive_ex;
use std::marker::PhantomData;

// (a) `Self::...` in a key expression
#[derive_ex(Eq, PartialEq)]
struct X {
    #[eq(key = Self::norm(&$))]
    s: String,
}
impl X {
    fn norm(s: &str) -> String {
        s.to_lowercase()
    }
}

// (b) `Self` in the type of a field that mentions a type parameter (=> generated bound `PhantomData<(Self, T)>: Eq`)
#[derive_ex(Eq, PartialEq)]
struct Y<T> {
    v: T,
    p: PhantomData<(Self, T)>,
}

// control: the same key with PartialEq only compiles and runs
#[derive_ex(PartialEq)]
struct Control {
    #[eq(key = Self::norm(&$))]
    s: String,
}
impl Control {
    fn norm(s: &str) -> String {
        s.to_lowercase()
    }
}

fn main() {
    assert!(X { s: "A".into() } == X { s: "a".into() });
    assert!(Y { v: 1, p: PhantomData } == Y { v: 1, p: PhantomData });
    assert!(Control { s: "A".into() } == Control { s: "a".into() });
}
