// repaired by 5dd33c8 (F37)
// (from the third independent defect hunt, seeded/hunt3/C13/demo2.rs)
// demo2 -- C13 (hygiene / raw identifiers): spelling a type parameter as a raw identifier in one
// place and plainly in another changes whether the program compiles.
//
// `T` and `r#T` are the same identifier for rustc.  The three structs below are the same type up
// to that spelling; without the attribute (or with a hand-written `impl Debug`) all of them are
// valid Rust, and `#[derive(Debug)]` from std accepts all of them.
//
// Expected by the property: all three derive `Debug` and print `A(1, [1, 2]) B(1, [1, 2]) C(1, [1, 2])`.
//
// Actual: COMPILE ERROR for `B` and `C`:
//     error[E0277]: the size for values of type `T` cannot be known at compilation time
//     = note: required for the cast from `&T` to `&dyn Debug`
// `may_be_unsized` (item_type.rs) decides by *comparing identifiers textually* (`&tp.ident == ident`,
// `path.is_ident(ident)`) whether the last field's type is a `?Sized` parameter, and `r#T != T`
// there, so the field is passed as `&self.1` instead of `&&self.1`.  (`GenericParamSet` in
// syn_utils.rs unraws both sides; this comparison was left out when raw identifiers were repaired.)
#![allow(dead_code)]
use derive_ex::derive_ex;

#[derive_ex(Debug)]
struct A<T: ?Sized>(u8, T);

#[derive_ex(Debug)]
struct B<T: ?Sized>(u8, r#T);

#[derive_ex(Debug)]
struct C<T>(u8, T)
where
    r#T: ?Sized;

fn main() {
    let a: &A<[u8]> = &A(1, [1, 2]);
    let b: &B<[u8]> = &B(1, [1, 2]);
    let c: &C<[u8]> = &C(1, [1, 2]);
    println!("{:?} {:?} {:?}", a, b, c);
}
