// repaired by d3de776 (F39): generic parameters re-declared with the user's spans were linted on the generated impls
// (from the third independent defect hunt, seeded/hunt3/C13/demo1.rs)
// demo1 -- C13 (hygiene): the *spelling* of a type / const / lifetime parameter decides whether the
// program compiles.
//
// Expected by the property: renaming the generic parameters of the type consistently (here to the
// non-conventional but perfectly legal `elem`, `len`, `'LT`; the user has silenced the style lints
// on the item, exactly as one does for the standard derives) changes neither whether the program
// compiles nor what the impls compute.  With `#[derive(Clone, Debug, PartialEq)]` from std this
// program compiles and prints `Buf { data: [1, 2], tag: 7 } true`.
//
// Actual: COMPILE ERROR (under `#![deny(warnings)]`; without it, warnings the user cannot silence
// on the item).  The generated `impl<'LT, elem, const len: usize> ... for Buf<'LT, elem, len>`
// re-declares the parameters with the user's own tokens (user spans), so rustc lints the
// *generated* impl header as if the user had written it:
//     error: lifetime `'LT` should have a snake case name
//     error: type parameter `elem` should have an upper camel case name
//     error: const parameter `len` should have an upper case name
// The `#[allow(..)]` on the item does not cover the generated impls.  Same thing for the impls
// generated from `#[derive_ex(AddAssign)] impl<elem> Add for ..` (the `#[allow]` on the impl is not
// carried over), and through `#[derive(Ex)]`.
// This is a leftover of fix a7ea894 ("names made up per field do not carry the span of the user's
// field name"), which repaired the same symptom for field names only.
//
// With the parameters renamed to `'lt`, `Elem`, `LEN` the very same program compiles.
#![deny(warnings)]
use derive_ex::derive_ex;

#[allow(non_camel_case_types, non_upper_case_globals, non_snake_case)]
#[derive_ex(Clone, Debug, PartialEq)]
struct Buf<'LT, elem, const len: usize> {
    data: [elem; len],
    tag: &'LT u8,
}

#[derive(Clone)]
struct X<T>(T);
#[allow(non_camel_case_types)]
#[derive_ex(AddAssign)]
impl<elem: core::ops::Add<Output = elem> + Clone> core::ops::Add for X<elem> {
    type Output = Self;
    fn add(self, r: Self) -> Self {
        X(self.0 + r.0)
    }
}

fn main() {
    let b: Buf<u8, 2> = Buf { data: [1, 2], tag: &7 };
    println!("{:?} {}", b, b == b.clone());
    let mut x = X(1);
    x += X(2);
    println!("{}", x.0);
}
