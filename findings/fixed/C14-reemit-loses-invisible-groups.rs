// demo1 -- C14 violated: WRONG RUN-TIME RESULT (no compile error, no panic).
//
// Expected by the property: the annotated item is re-emitted exactly as written
// (fields, discriminants, ... unchanged), so `#[derive_ex(Clone)]` on an item must
// leave the item's meaning untouched: the two enums / structs / impls below, which
// are produced by the *same* macro_rules body and differ only in
// `#[derive(Clone)]` vs `#[derive_ex(Clone)]` (resp. hand-written vs `#[derive_ex(Sub)]`),
// must have the same discriminants, the same array length and the same `add` result.
//
// Actual: derive_ex does not re-emit the tokens it got; it parses the item with syn and
// prints the syn tree again (`quote!(#item #ts)` in lib.rs `build`).  A macro_rules
// fragment (`$e:expr`, `$t:ty`, ...) arrives as a None-delimited group; syn keeps it as
// Expr::Group / Type::Group and prints a *freshly created* None-delimited group, which
// rustc ignores when it re-parses proc-macro output.  The grouping is lost:
//     B = $e * 2        with $e = 1 + 1   is re-emitted as   B = 1 + 1 * 2      (3, not 4)
//     [u8; $e * 2]                         is re-emitted as   [u8; 1 + 1 * 2]    (3 bytes, not 4)
//     X(self.0 * $e)    in an impl body    is re-emitted as   X(self.0 * 1 + 1)
// (An identity attribute macro `fn id(_, item) -> item` keeps the value 4: the loss is
// caused by derive_ex's parse-and-reprint, not by attribute macros as such.  With
// `$t:ty = dyn Fn() + Send` and a field `&'static $t` the same loss gives the compile
// error "ambiguous `+` in a type" instead.)
//
// Output:
//   plain     : B = 4, size = 4, mul = 10
//   derive_ex : B = 3, size = 3, mul = 6
//   thread 'main' panicked ... assertion `left == right` failed
#![allow(dead_code)]
use derive_ex::derive_ex;
use std::ops::Mul;

macro_rules! plain {
    ($e:expr) => {
        #[derive(Clone)]
        #[repr(u8)]
        pub enum PE { A = $e, B = $e * 2 }

        #[derive(Clone)]
        pub struct PS { pub buf: [u8; $e * 2] }

        #[derive(Clone)]
        pub struct PX(pub i32);
        impl Mul for PX {
            type Output = PX;
            fn mul(self, rhs: PX) -> PX { PX(self.0 * rhs.0 * $e) }
        }
    };
}
macro_rules! with_derive_ex {
    ($e:expr) => {
        #[derive_ex(Clone)]
        #[repr(u8)]
        pub enum DE { A = $e, B = $e * 2 }

        #[derive_ex(Clone)]
        pub struct DS { pub buf: [u8; $e * 2] }

        #[derive(Clone)]
        pub struct DX(pub i32);
        #[derive_ex(Mul)] // adds the `&DX * &DX` ... forms; must leave this impl alone
        impl Mul for DX {
            type Output = DX;
            fn mul(self, rhs: DX) -> DX { DX(self.0 * rhs.0 * $e) }
        }
    };
}
plain!(1 + 1);
with_derive_ex!(1 + 1);

fn main() {
    let p = (PE::B as u8, std::mem::size_of::<PS>(), (PX(5) * PX(1)).0);
    let d = (DE::B as u8, std::mem::size_of::<DS>(), (DX(5) * DX(1)).0);
    println!("plain     : B = {}, size = {}, mul = {}", p.0, p.1, p.2);
    println!("derive_ex : B = {}, size = {}, mul = {}", d.0, d.1, d.2);
    assert_eq!(p, d, "the item re-emitted by derive_ex differs from the item as written");
}
