// repaired by 35f4907 (F36)
// (from the second independent defect hunt, seeded/hunt2/C07/demo3.rs)
// demo3 -- C07, symptom: COMPILE ERROR (E0308 in the generated `clone` and `clone_from`).
//
// `#[derive(Ex)] #[derive_ex(Clone)]` on a struct that a `macro_rules!` macro generates, with an `$n:expr` fragment used
// inside a field type (an array length here; a const generic argument `Buf<{ $n * 2 }>` behaves the same).
//
// Expected by the property: the field `arr` has the type `[u8; (1 + 1) * 2]` = `[u8; 4]` and `clone` calls that type's
// `Clone::clone` on it.  `#[derive(Clone)]` accepts this (run with `--cfg control`: prints `[7, 7, 7, 7] [7, 7, 7, 7]`).
//
// Actual: `$n` reaches the macro as a None-delimited group, derive_ex copies the field type token by token into
// `<[u8; $n * 2] as Clone>::clone(&self.arr)`, and rustc ignores None-delimited groups in the output of a procedural
// macro, so the generated code names the type `[u8; 1 + 1 * 2]` = `[u8; 3]`, which is not the field's type:
//     error[E0308]: mismatched types ... expected an array with a size of 3, found one with a size of 4
// (The crate knows about this for `$t:ty` -- `DropTrailingPlus` in syn_utils.rs unwraps `Type::Group` -- but not for
// expressions inside types.)
//
//   rustc --edition 2021 --extern derive_ex=/tmp/wt-C07n/target/debug/libderive_ex.so -o /tmp/hunt_C07 hunt/demo3.rs
#![allow(dead_code)]
#[cfg(not(control))]
use derive_ex::Ex;

macro_rules! buffer {
    ($name:ident, $n:expr) => {
        #[cfg_attr(not(control), derive(Ex), derive_ex(Clone))]
        #[cfg_attr(control, derive(Clone))]
        struct $name {
            arr: [u8; $n * 2],
        }
    };
}
buffer!(S, 1 + 1);

fn main() {
    let s = S { arr: [7; 4] };
    let mut t = S { arr: [0; 4] };
    t.clone_from(&s);
    println!("{:?} {:?}", s.clone().arr, t.arr);
}
