// repaired by 5dd33c8 (F37): may_be_unsized compared r#T with T by the raw name
// (from the third independent defect hunt, seeded/hunt3/C10/demo3.rs)
// C10 demo 3 -- symptom: COMPILE ERROR in the generated impl (E0277, `T` needs to be `Sized`).
//
// Input: a `?Sized` type parameter that is spelled once with and once without `r#` (`T` and `r#T`
// are the same identifier for rustc).  The standard derive accepts it (`mod control`) and prints
// `P(1, [2, 3])`.
//
// Expected by the property: same output as the std derive.
// Actual: derive_ex's impl does not compile.
//
// Cause: `may_be_unsized` (item_type.rs) compares the field type with the declared parameters by
// `&tp.ident == ident` / `path.is_ident(ident)`, i.e. including the `r#` prefix, whereas the rest
// of the crate (GenericParamSet, helper attribute names, printed names) compares `unraw()`ed
// identifiers.  The last field is therefore passed as `&self.1` instead of `&&self.1`.
#![allow(dead_code)]
use derive_ex::derive_ex;

mod control {
    #[derive(Debug)]
    pub struct P<T: ?Sized>(pub u8, pub r#T);
    #[derive(Debug)]
    pub struct Q<T>(pub u8, pub r#T)
    where
        T: ?Sized;
}

#[derive_ex(Debug)]
struct P<T: ?Sized>(u8, r#T);

#[derive_ex(Debug)]
struct Q<T>(u8, r#T)
where
    T: ?Sized;

fn main() {
    let p: &control::P<[u8]> = &control::P(1, [2u8, 3]);
    println!("{:?}", p);
}
