// Self in field type with Add
use derive_ex::derive_ex;
use std::marker::PhantomData;
use std::ops::Add;
struct W<T>(PhantomData<T>);
impl<T> Add for W<T> { type Output = W<T>; fn add(self, _: W<T>) -> W<T> { W(PhantomData) } }
impl<'a, T> Add<&'a W<T>> for W<T> { type Output = W<T>; fn add(self, _: &W<T>) -> W<T> { W(PhantomData) } }
impl<'a, T> Add<W<T>> for &'a W<T> { type Output = W<T>; fn add(self, _: W<T>) -> W<T> { W(PhantomData) } }
impl<'a, T> Add<&'a W<T>> for &'a W<T> { type Output = W<T>; fn add(self, _: &W<T>) -> W<T> { W(PhantomData) } }
#[derive_ex(Add)]
struct X { a: W<Self>, n: u8 }
fn main() { let x = X { a: W(PhantomData), n: 1 }; let y = X { a: W(PhantomData), n: 2 }; println!("{}", (&x + &y).n); }
