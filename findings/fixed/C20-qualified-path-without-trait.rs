#![deny(warnings)]
use derive_ex::derive_ex;
pub trait Tr { type Assoc; }
#[derive_ex(Clone)]
pub struct X<T: Tr>(pub <T>::Assoc);
#[derive_ex(Clone, PartialEq, Debug, Default, Hash, Add)]
pub struct Y<T: Tr>(pub <T>::Assoc, pub Option<<T>::Assoc>);
fn main() {}
