// demo1 — C03 violated: a field type written as a macro invocation (`Pair![T]`) is not
// recognised as mentioning the type parameter `T`.
//
// Expected by the property: field 0 is used by the derived `Clone`, its type `Pair![T]`
//   (= `(T, T)`) mentions the parameter `T`, so the impl must carry `Pair![T]: Clone`
//   (or an equivalent bound); `X<u8>: Clone` must hold, `X<NoClone>: Clone` must not, and the
//   generated impl must type-check.
// Actual: `GenericParamSet::contains_in_type` (derive-ex/src/syn_utils.rs) only looks at
//   `syn::Path`s; the tokens inside a `Type::Macro` are never inspected, so NO where-clause
//   is generated: `impl<T> Clone for X<T> { .. <Pair![T] as Clone>::clone(&self.0) .. }`.
// Symptom: COMPILE ERROR in the generated impl (E0277 `T: Clone` is not satisfied in `(T, T)`).
//
// The program is valid Rust with a hand-written impl:  add `--cfg handwritten`  -> compiles, runs.
use derive_ex::derive_ex;

macro_rules! Pair {
    ($t:ty) => { ($t, $t) };
}

#[allow(dead_code)]
struct NoClone;

#[cfg_attr(not(handwritten), derive_ex(Clone))]
struct X<T>(Pair![T]);

#[cfg(handwritten)]
impl<T> Clone for X<T>
where
    Pair![T]: Clone,
{
    fn clone(&self) -> Self {
        X(<Pair![T] as Clone>::clone(&self.0))
    }
}

fn main() {
    let x = X((1u8, 2u8));
    let y = x.clone();
    assert_eq!((y.0).0, 1);
    let _never_cloned = X((NoClone, NoClone));
    println!("ok");
}
