// repaired by 842aab7 (F40)
// (from the third independent defect hunt, seeded/hunt3/C03/demo1.rs)
// demo1 — two fields of the same type, when that type contains an anonymous higher-ranked lifetime
// (`fn(&T)`, `dyn Fn(&T) -> bool`, `for<'x> fn(&'x T)`, ...).
//
// Expected by C03: with no `bound(..)`, `#[derive_ex(Clone)]` on `Callbacks<T>` yields
//     impl<T> Clone for Callbacks<T> where Rc<dyn Fn(&T) -> bool>: Clone { .. }
// which type-checks and applies to every `T` (an `Rc` is always `Clone`); the same for `Handlers<T>`
// (`fn(&T)` is `Clone + Debug + PartialEq` for every `T`).  "never omitting a bound the generated body
// needs, so the generated impl itself always type-checks".
//
// Actual: COMPILE ERROR in the generated impls (E0283 "type annotations needed: cannot satisfy
// `Rc<dyn for<'a> Fn(&'a T) -> bool>: Clone` ... multiple `impl`s or `where` clauses satisfying ...").
// The macro pushes one default bound per *field*, so the where-clause contains the predicate twice:
//     where Rc<dyn Fn(&T) -> bool>: Clone, Rc<dyn Fn(&T) -> bool>: Clone
// Each occurrence has its own anonymous `for<'a>` binder, rustc does not recognise the two where-clauses as
// the same candidate, and every use of the bound in the body (and the well-formedness check of the impl)
// becomes ambiguous.  With ONE such field (struct `One` below) everything is fine; std's
// `#[derive(Clone)]` also accepts `Callbacks` / `Handlers` (with `T: Clone`).
//
// This is not the recorded "two references to one type parameter under different lifetimes": there are no
// lifetime parameters at all here, the two field types are literally identical.
//
// Symptom: compile error (the generated impl does not type-check).
use derive_ex::derive_ex;
use std::rc::Rc;

struct NotClone;

#[derive_ex(Clone)]
struct Callbacks<T> {
    before: Rc<dyn Fn(&T) -> bool>,
    after: Rc<dyn Fn(&T) -> bool>,
}

#[derive_ex(Clone, Debug, PartialEq)]
struct Handlers<T> {
    on_open: fn(&T),
    on_close: fn(&T),
}

// control: a single field of that type is fine
#[derive_ex(Clone)]
struct One<T> {
    before: Rc<dyn Fn(&T) -> bool>,
    n: u8,
}

fn nop(_: &NotClone) {}

fn main() {
    let c = Callbacks::<NotClone> { before: Rc::new(|_| true), after: Rc::new(|_| false) };
    let d = c.clone();
    println!("{} {}", (d.before)(&NotClone), (d.after)(&NotClone));

    let h = Handlers::<NotClone> { on_open: nop, on_close: nop };
    println!("{:?}", h.clone());

    let o = One::<NotClone> { before: Rc::new(|_| true), n: 1 };
    println!("{}", (o.clone().before)(&NotClone));
}
