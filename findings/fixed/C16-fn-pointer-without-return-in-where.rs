// demo3 -- C16 (expansion yields well-formed Rust items or a compile_error!)
//
// Input: `#[derive_ex(Neg)]` (the same for `Not` and for `Add`, `Sub`, .. `Shr`) on a generic
// struct with a field whose type is a function pointer type WITHOUT return type that mentions a
// type parameter:
//
//     #[derive_ex(Neg)]
//     struct X<T>(fn(T));
//
// The item is valid Rust.  Function pointers do not implement `Neg`, so the derived impls can
// only be vacuous -- exactly like `#[derive_ex(Neg)] struct Y<T>(fn(T) -> T);` below, which
// derive-ex expands to two well-formed impls guarded by (never satisfied) where-clauses and
// which compiles.  `hand` below shows the impls derive-ex means to generate for `X`, written by
// hand with the necessary parentheses: they are valid Rust, too.
//
// Expected by the property: for `X`, as for `Y`, well-formed impls
//     impl<T> Neg for  X<T> where fn(T): Neg<Output = fn(T)> { .. }
//     impl<T> Neg for &X<T> where for<'__a> &'__a (fn(T)): Neg<Output = fn(T)> { .. }
// or else a compile_error! with a message saying that the field type is not supported.
//
// Actual: the where-clause of the by-reference impl is emitted as
//     where for<'__a> &'__a fn(T) : ::core::ops::Neg<Output = fn(T)>,
// and `&'__a fn(T) :` is not a type followed by `:` for rustc's parser (after `&` the `:` is
// taken for a mistyped `->`).  The generated item is syntactically ill-formed:
//     error: return types are denoted using `->`
//     error: expected one of `!`, `::`, `:`, `==`, or `=`, found `,`
// (derive-ex/src/bound.rs, WhereClauseBuilder::build parenthesises `dyn A + B`, `impl A + B`
//  and `<T>::Assoc`, but not `Type::BareFn`, before the closures of build_unary_op /
//  build_binary_op in item_type.rs put `&'__a` in front of the type.)
//
// Symptom: COMPILE ERROR (syntax error inside the generated impl), no panic.
// The same ill-formed where-clause is produced by `#[derive_ex(Neg, bound(fn(T)))]`.

use derive_ex::derive_ex;

// accepted: the return type happens to separate `)` from `:`
#[derive_ex(Neg)]
struct Y<T>(fn(T) -> T);

// rejected with a syntax error in the generated code
#[derive_ex(Neg)]
struct X<T>(fn(T));

mod hand {
    use std::ops::Neg;
    pub struct X<T>(pub fn(T));
    impl<T> Neg for X<T>
    where
        fn(T): Neg<Output = fn(T)>,
    {
        type Output = X<T>;
        fn neg(self) -> X<T> {
            X(<fn(T) as Neg>::neg(self.0))
        }
    }
    impl<T> Neg for &X<T>
    where
        for<'a> &'a (fn(T)): Neg<Output = fn(T)>,
    {
        type Output = X<T>;
        fn neg(self) -> X<T> {
            X(<&fn(T) as Neg>::neg(&self.0))
        }
    }
}

fn main() {
    fn f(_: u8) {}
    fn g(x: u8) -> u8 { x }
    let x = X::<u8>(f);
    (x.0)(1);
    let y = Y::<u8>(g);
    println!("{}", (y.0)(1));
    let _ = hand::X::<u8>(f);
}
