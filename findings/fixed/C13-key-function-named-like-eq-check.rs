// demo1 -- C13 (hygiene): the Eq "checker" uses the unreserved names `_eq` and `_f`
//
// Symptom: COMPILE ERROR (E0308) in a program that is valid Rust.
//
// Expected by the property: the names a user chooses (anything not starting with `__`) never change whether the
// program compiles.  Here the user has a helper function called `_eq` and uses it in `#[eq(key = ...)]`.
// The key expression is well-typed (`_eq(u32) -> u32`), and the very same program compiles and runs when the
// helper is called `modten` instead (sed 's/_eq/modten/g'), or when only `PartialEq` is derived.
//
// Actual: for `Eq` the macro generates (derive-ex/src/item_type/compare_op.rs, build_compare_op / build_eq_checker)
//
//     const _: () = {
//         fn _f(__this: &S) {
//             { fn _eq<T: ::core::cmp::Eq + ?::core::marker::Sized>(__this: &T) {}
//               _eq(&(_eq((__this.a)))) }          // <- the user's `_eq` is captured by the generated `fn _eq`
//         }
//     };
//
// so the user's call `_eq(..)` resolves to the generated local `fn _eq<T>(&T)` and the program is rejected
// ("expected `&_`, found `u32`").  The same happens with a user function called `_f` (captured by `fn _f`):
// "expected `&S`, found `u32`".  All other generated locals are `__`-prefixed; these two (and the type
// parameter `T` of `_eq`) are not.
use derive_ex::derive_ex;

// user helper; the name is the user's choice
fn _eq(x: u32) -> u32 {
    x % 10
}

#[derive_ex(PartialEq, Eq)]
struct S {
    #[eq(key = _eq($))]
    a: u32,
}

fn main() {
    assert!(S { a: 13 } == S { a: 23 });
    assert!(S { a: 13 } != S { a: 24 });
    println!("ok");
}
