// demo2 — C03 violated: a field type that mentions a type parameter AND `Self`
// (`fn(T) -> Self`, a constructor/callback pointer) makes `#[derive_ex(Eq)]` emit a default
// bound containing `Self` on a free function, where `Self` does not exist.
//
// Expected by the property: both fields are used, both types mention `T`, so
//   `impl<T> Eq for X<T> where T: Eq, fn(T) -> X<T>: Eq` and the generated code type-checks.
//   (`fn(T) -> X<T>` is `Eq` for every `T`, so `X<u8>: Eq` must hold.)
// Actual: for `Eq` the macro additionally emits
//     const _: () = { fn _f<T>(__this: &X<T>) where T: Eq, fn(T) -> Self: Eq { .. } };
//   `expand_self` is applied to the generics only, not to the field types pushed by
//   `WhereClauseBuilder::push_bounds_for_field`, so the default bound keeps `Self`.
// Symptom: COMPILE ERROR (E0411 cannot find type `Self` in this scope — `Self` not allowed in a function).
//   `#[derive_ex(PartialEq)]` alone on the same type compiles, and so does a hand-written `Eq`:
//   add `--cfg handwritten`  -> compiles (one fn-pointer-comparison lint warning), runs.
//
// Same root cause (field types are never Self-expanded although `Self` changes meaning), other symptom:
//   `#[derive_ex(Add)] struct X<T> { val: Tag<T, Self> }` — in the three impls whose self type is `&X<T>`
//   the bound and the body name `Tag<T, &X<T>>` instead of `Tag<T, X<T>>` (E0308), see REPORT.md.
use derive_ex::derive_ex;

#[cfg_attr(not(handwritten), derive_ex(Eq, PartialEq))]
#[cfg_attr(handwritten, derive_ex(PartialEq))]
struct X<T> {
    val: T,
    make: fn(T) -> Self,
}

#[cfg(handwritten)]
impl<T> Eq for X<T>
where
    T: Eq,
    fn(T) -> Self: Eq,
{
}

fn mk(v: u8) -> X<u8> {
    X { val: v, make: mk }
}
fn assert_eq_impl<E: Eq>(_: &E) {}

fn main() {
    let a = mk(1);
    assert_eq_impl(&a);
    assert!(a.val == (a.make)(1).val);
    println!("ok");
}
