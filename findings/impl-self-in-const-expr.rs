// demo3 -- C09, "the user's `Output` ... (including uses of `Self`) carry over".
//
// The user's `Output` uses `Self` in expression position: `[u8; Self::N]` (an inherent associated
// constant of `A`).  Valid Rust: in `impl Add<A> for A`, `Self` is the concrete type `A`.
//
// EXPECTED (property): the generated `A + &A`, `&A + A`, `&A + &A` have the user's Output `[u8; A::N]`
//   = `[u8; 2]` and forward to the user's impl; the program prints
//       [1, 2] [1, 2] [1, 2] [1, 2]
//   (`rustc --cfg handwritten` on this file prints exactly that).
// ACTUAL: COMPILE ERROR.  `expand_self` only rewrites *types* that are exactly `Self`; the path expression
//   `Self::N` is copied verbatim into `impl Add<..> for &A`, where `Self` no longer means `A` but `&'_ A`:
//       error: generic `Self` types are currently not permitted in anonymous constants
//   (with `Self` not rewritten the meaning of the copied `Output` silently changes with the self type of the
//   generated impl; the same happens to a `Self` inside a type-position macro, e.g. `impl Add<id!(Self)> for A`,
//   where the derive then produces `&A + &A`, `A + &A`, `&A + &&A` and no `&A + A`.)
#![allow(unused_imports)]
use derive_ex::derive_ex;
use std::ops::Add;

#[derive(Clone, Debug, PartialEq)]
struct A(u8);
impl A {
    const N: usize = 2;
}

#[cfg_attr(not(handwritten), derive_ex(Add))]
impl Add<A> for A {
    type Output = [u8; Self::N];
    fn add(self, rhs: A) -> Self::Output {
        [self.0, rhs.0]
    }
}

#[cfg(handwritten)]
mod by_hand {
    use super::*;
    impl Add<&A> for A {
        type Output = [u8; A::N];
        fn add(self, rhs: &A) -> Self::Output { <A as Add<A>>::add(self, rhs.clone()) }
    }
    impl Add<A> for &A {
        type Output = [u8; A::N];
        fn add(self, rhs: A) -> Self::Output { <A as Add<A>>::add(self.clone(), rhs) }
    }
    impl Add<&A> for &A {
        type Output = [u8; A::N];
        fn add(self, rhs: &A) -> Self::Output { <A as Add<A>>::add(self.clone(), rhs.clone()) }
    }
}

fn main() {
    let (a, b) = (A(1), A(2));
    println!("{:?} {:?} {:?} {:?}", a.clone() + b.clone(), a.clone() + &b, &a + b.clone(), &a + &b);
}
