// `#[derive_ex(Hash)]` (any trait with default bounds) on a struct with two references to the same parameter under
// different lifetimes: the documented default bounds `&'a T: Hash, &'b T: Hash` make trait selection ambiguous
// (E0283) inside the generated impl; the standard derive (bound `T: Hash`) compiles.
use derive_ex::derive_ex;
#[derive_ex(Hash, Clone, PartialEq, Debug)]
struct S<'a, 'b, T> { a: &'a T, b: &'b T }
#[derive(Hash, Clone, PartialEq, Debug)]
struct Std<'a, 'b, T> { a: &'a T, b: &'b T }
fn main() { let x = 1u8; let s = S { a: &x, b: &x }; assert_eq!(s.clone(), s); let t = Std { a: &x, b: &x }; assert_eq!(t.clone(), t); }
