// open: an annotated impl for a reference written with a named lifetime
// (from the third independent defect hunt, seeded/hunt3/C09/demo1.rs)
// C09 demo 1 -- a reference self type / rhs type written with an explicit lifetime is not
// recognised as a reference.
//
// `impl<'a> Add<X> for &'a X` is the same impl as `impl Add<X> for &X` (doc: "By applying
// `#[derive_ex(AddAssign)]` to `impl Add<Rhs> for T` or `impl Add<Rhs> for &T`, you can implement
// `AddAssign<Rhs> for T`"; with `&X` spelled without a lifetime this works, see
// derive-ex-tests/tests/item_impl.rs::add_assign_by_add_ref).
//
// Expected by the property: `a += b` is derived as `a = &a + b`, forwarding to the user's impl,
// and `#[derive_ex(Add)]` on `impl<'a, 'b> Add<&'b Y> for &'a Y` yields `Y + Y`, `Y + &Y`, `&Y + Y`.
//
// Actual: COMPILE ERROR.  `to_ref_elem` (item_impl.rs) only strips `&` when the reference has no
// lifetime, so the macro takes `&'a X` for an owned operand type and generates
//     impl<'a> AddAssign<X> for &'a X {
//         fn add_assign(&mut self, __rhs: X) {
//             *self = <&'a X as Add<X>>::add(<&'a X as Clone>::clone(self), __rhs)   // E0308: X assigned to &'a X
//         }
//     }
// and, for the second impl, `Add<&&'b Y> for &&'a Y`, `Add<&'b Y> for &&'a Y`, `Add<&&'b Y> for &'a Y`
// instead of the owned forms, so `Y(1) + Y(2)` does not exist (E0369).
use derive_ex::derive_ex;
use std::ops::Add;

#[derive(Clone, Debug)]
struct X(u32);

#[derive_ex(AddAssign)]
impl<'a> Add<X> for &'a X {
    type Output = X;
    fn add(self, rhs: X) -> X {
        X(self.0 + rhs.0)
    }
}

#[derive(Clone, Debug)]
struct Y(u32);

#[derive_ex(Add)]
impl<'a, 'b> Add<&'b Y> for &'a Y {
    type Output = Y;
    fn add(self, rhs: &'b Y) -> Y {
        Y(self.0 + rhs.0)
    }
}

fn main() {
    let mut a = X(1);
    a += X(5);
    println!("{:?}", a); // expected X(6)
    println!("{:?}", Y(1) + Y(2)); // expected Y(3)
}
