// open: a const parameter named like a type in scope
// (from the second independent defect hunt, seeded/hunt2/C18/demo2.rs)
// C18 demo 2 -- symptom: COMPILE ERROR (in the generated impl header).
//
// Expected by the property: `Deref`/`DerefMut` derived on the single-field struct
// `Buf<const N: usize>([u8; N])` give `Target = [u8; N]` and a reference to field 0 ("with generics").
// The program is valid without the attribute, `#[derive(Clone, Debug)]` of std accepts the very same
// struct (see `Std` below), and a hand-written `impl<const N: usize> Deref for Buf<{ N }>` works.
//
// Actual: a type called `N` is in scope, and the macro writes the self type as `Buf<N>`
// (syn's `TypeGenerics`, item_type.rs: `parse_quote!(#this_ty_ident #type_g)`).  In a generic argument a
// bare identifier is looked up in the type namespace first, so `N` is the struct `N`, not the const
// parameter:
//     error[E0747]: type provided when a constant was expected
// (same with `#[derive(Ex)] #[derive_ex(Deref, DerefMut)]`).  The const argument has to be written `{ N }`.
use derive_ex::derive_ex;
use std::ops::{Deref, DerefMut};

/// Any type whose name equals the name of the const parameter.
pub struct N;

#[derive(Clone, Debug)]
pub struct Std<const N: usize>(pub [u8; N]);

#[derive_ex(Deref, DerefMut)]
pub struct Buf<const N: usize>(pub [u8; N]);

fn main() {
    let _ = N;
    let _ = Std([0u8; 2]).clone();
    let mut b = Buf([0u8; 3]);
    let p: *const [u8; 3] = &b.0;
    let q: *const [u8; 3] = Deref::deref(&b);
    assert!(std::ptr::eq(p, q));
    DerefMut::deref_mut(&mut b)[1] = 2;
    assert_eq!(b.0, [0, 2, 0]);
    println!("ok");
}
