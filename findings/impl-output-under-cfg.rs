// demo1 -- C09, "the user's `Output` ... carry over".
//
// The user's `impl Add` has two `type Output` items under complementary `#[cfg]`s (the usual way to
// make an associated type depend on a feature / target).  Exactly one of them exists after cfg-stripping,
// so the impl is valid Rust, and `<A as Add<A>>::Output` is `A`.
//
// EXPECTED (property): the three generated forms (`A + &A`, `&A + A`, `&A + &A`) have the user's Output,
//   i.e. `A`, forward to the user's impl, and the program prints
//       A(3) A(3) A(3) A(3)
//   (this is what `rustc --cfg handwritten` on this very file gives, with the forwarders written by hand).
// ACTUAL: COMPILE ERROR.  `find_output_type` (derive-ex/src/item_impl.rs) returns the first item named
//   `Output` without looking at its attributes, so every generated impl says `type Output = u8;`
//   while its body returns `<A as Add<A>>::Output` = `A`:  error[E0308]: mismatched types, expected `u8`, found `A`.
//   (Same root cause: when `type Output = ..;` comes from a macro invocation inside the impl body,
//   the macro reports "cannot find associate type `Output`".)
#![allow(unused_imports)]
use derive_ex::derive_ex;
use std::ops::Add;

#[derive(Clone, Debug, PartialEq)]
struct A(u8);

#[cfg_attr(not(handwritten), derive_ex(Add))]
impl Add<A> for A {
    #[cfg(target_pointer_width = "8")] // false here; stands for `#[cfg(feature = "narrow")]`
    type Output = u8;
    #[cfg(not(target_pointer_width = "8"))]
    type Output = A;

    #[cfg(target_pointer_width = "8")]
    fn add(self, rhs: A) -> u8 {
        self.0 + rhs.0
    }
    #[cfg(not(target_pointer_width = "8"))]
    fn add(self, rhs: A) -> A {
        A(self.0 + rhs.0)
    }
}

#[cfg(handwritten)]
mod by_hand {
    use super::*;
    impl Add<&A> for A {
        type Output = <A as Add<A>>::Output;
        fn add(self, rhs: &A) -> Self::Output { <A as Add<A>>::add(self, rhs.clone()) }
    }
    impl Add<A> for &A {
        type Output = <A as Add<A>>::Output;
        fn add(self, rhs: A) -> Self::Output { <A as Add<A>>::add(self.clone(), rhs) }
    }
    impl Add<&A> for &A {
        type Output = <A as Add<A>>::Output;
        fn add(self, rhs: &A) -> Self::Output { <A as Add<A>>::add(self.clone(), rhs.clone()) }
    }
}

fn main() {
    let (a, b) = (A(1), A(2));
    println!("{:?} {:?} {:?} {:?}", a.clone() + b.clone(), a.clone() + &b, &a + b.clone(), &a + &b);
}
