// demo3 — C03 violated: a field type that reaches the type parameter through `Self`
// (`<Self as Tr>::Out`, with `impl<T> Tr for X<T> { type Out = T; }`) gets no bound.
//
// Expected by the property: "never omitting a bound the generated body needs, so the generated
//   impl itself always type-checks".  `Self` is `X<T>` inside the type definition, so the field type
//   depends on `T`; the impl must carry `<X<T> as Tr>::Out: Clone` (what a hand-written impl has),
//   giving `X<u8>: Clone` and not `X<NoClone>: Clone`.
// Actual: `GenericParamSet::contains_in_type` does not treat `Self` as mentioning the parameters,
//   so no where-clause is generated:
//     impl<T> Clone for X<T> { .. <<Self as Tr>::Out as Clone>::clone(&self.val) .. }
// Symptom: COMPILE ERROR in the generated impl (E0277 the trait bound `T: Clone` is not satisfied).
//
// Valid Rust with a hand-written impl:  add `--cfg handwritten`  -> compiles, runs.
use derive_ex::derive_ex;

trait Tr {
    type Out;
}
impl<T> Tr for X<T> {
    type Out = T;
}

#[allow(dead_code)]
struct NoClone;

#[cfg_attr(not(handwritten), derive_ex(Clone))]
struct X<T> {
    val: <Self as Tr>::Out,
}

#[cfg(handwritten)]
impl<T> Clone for X<T>
where
    <Self as Tr>::Out: Clone,
{
    fn clone(&self) -> Self {
        X { val: <<Self as Tr>::Out as Clone>::clone(&self.val) }
    }
}

fn main() {
    let x = X::<u8> { val: 1 };
    let y = x.clone();
    assert_eq!(y.val, 1);
    let _never_cloned = X::<NoClone> { val: NoClone };
    println!("ok");
}
