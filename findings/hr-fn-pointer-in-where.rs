// open: for<'x> fn(..) in front of a where-predicate is read as a higher-ranked predicate
// (from the third independent defect hunt, seeded/hunt3/C03/demo3.rs)
// demo3 — a field type that *starts with* `for<'x>` (a function pointer type with an explicit binder and a
// return type) in front of a generated where-predicate.
//
// `Explicit<T>` and `Elided<T>` below have the same field type; `for<'x> fn(&'x T) -> &'x T` is merely the
// explicit spelling of `fn(&T) -> &T`.
//
// Expected by C03: `#[derive_ex(Default)]` gives for both
//     impl<T> Default for S<T> where (for<'x> fn(&'x T) -> &'x T): Default { .. }
// i.e. an impl that type-checks under its own where-clause (it simply applies to no `T`, as no function
// pointer is `Default` — exactly what happens for `Elided<T>`, and for `fn(T) -> T`, `fn(T)`, ...):
// "never omitting a bound the generated body needs, so the generated impl itself always type-checks".
// The same holds for the operator derives (`Add`, `Neg`, `AddAssign`, ...).
//
// Actual: COMPILE ERROR for `Explicit<T>` only.  The macro writes the field type unparenthesised in front
// of the predicate:
//     where for<'x> fn(&'x T) -> &'x T : ::core::default::Default
// which rustc reads as the higher-ranked PREDICATE `for<'x> (fn(&'x T) -> &'x T: Default)` about the
// non-higher-ranked pointer types — a different predicate from the one the body needs
// (`<for<'x> fn(&'x T) -> &'x T as Default>::default()`), so the needed bound is in effect omitted:
//     error[E0277]: the trait bound `for<'x> fn(&'x T) -> &'x T: Default` is not satisfied
// (`bound.rs` parenthesises `fn(T)` — no return type — and `<T>::Assoc` in this position, but not a type that
// begins with `for<..>`.  For Clone/Debug/PartialEq/... the mistake is masked because every function pointer
// implements those traits anyway.)
//
// Symptom: compile error (the generated impl does not type-check).
use derive_ex::derive_ex;

#[derive_ex(Default)]
struct Elided<T> {
    f: fn(&T) -> &T,
}

#[derive_ex(Default)]
struct Explicit<T> {
    f: for<'x> fn(&'x T) -> &'x T,
}

fn main() {}
