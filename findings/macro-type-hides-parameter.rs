// open: a macro in type position whose expansion (not its arguments) mentions a parameter
// (from the third independent defect hunt, seeded/hunt3/C03/demo2.rs)
// demo2 — a field type written as a macro invocation whose *expansion* mentions a type parameter
// that is not among the macro's arguments.
//
// `Map![V]` abbreviates `BTreeMap<K, V>`; type names in `macro_rules!` are not hygienic, so `K` is the
// parameter of the struct the macro is used in.  This is valid Rust: the struct compiles, and the impl
// C03 describes can be written by hand and type-checks (demo2_control.rs):
//     impl<K> Clone for Index<K> where Map![String]: Clone, Map![u32]: Clone { .. }
//
// Expected by C03: both fields are used by the derived `clone` and their types mention the type parameter
// `K`, so `Index<K>: Clone` exactly when `BTreeMap<K, String>: Clone` and `BTreeMap<K, u32>: Clone`,
// "never omitting a bound the generated body needs, so the generated impl itself always type-checks".
//
// Actual: COMPILE ERROR.  `GenericParamSet::contains_in_type` (syn_utils.rs) looks for the parameter among
// the macro's argument tokens only (the repair for `Pair![T]`), finds no `K` in `Map![String]`, emits NO
// where-clause at all, and the body `<Map![String] as Clone>::clone(&self.by_name)` needs `K: Clone`:
//     error[E0277]: the trait bound `K: Clone` is not satisfied
// (A macro invocation cannot be expanded by the derive, but `Map![String]: Clone` is always a legal
// predicate, so the bound could be emitted for every macro-typed field.)
//
// Symptom: compile error (the generated impl does not type-check).
use derive_ex::derive_ex;
use std::collections::BTreeMap;

macro_rules! Map {
    ($v:ty) => { BTreeMap<K, $v> };
}

#[derive_ex(Clone)]
struct Index<K> {
    by_name: Map![String],
    by_id: Map![u32],
}

fn main() {
    let mut i = Index::<u8> { by_name: BTreeMap::new(), by_id: BTreeMap::new() };
    i.by_name.insert(1, "a".to_string());
    i.by_id.insert(2, 7);
    let j = i.clone();
    println!("{:?} {:?}", j.by_name, j.by_id);
}
