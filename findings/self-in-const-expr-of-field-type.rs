// open: Self in a constant expression inside a field type, operators derived from a struct
// (from the second independent defect hunt, seeded/hunt2/C08/demo1.rs)
// C08 demo 1 -- `Self` inside a const-generic argument (an expression) of a field type.
//
// Expected by the property: `#[derive_ex(Add)]` on `S` gives `S + S`, `S + &S`, `&S + S`, `&S + &S`,
// all field-wise, all with the same result (the program prints "ok").  The struct is legal Rust
// (`Self::N` is the inherent constant of the non-generic `S`), and with the four impls written by
// hand the program compiles and prints "ok" (see demo1_by_hand.rs).
//
// Actual: COMPILE ERROR in the generated code.  The impls for `&S` copy the field type
// `V<{ Self::N }>` as written; only a `Self` that is a whole *type* node is written out
// (syn_utils::expand_self overrides visit_type_mut only), the `Self` in the path expression
// `Self::N` is not.  In `impl Add<..> for &S` that `Self` is `&'_ S`:
//   error: generic `Self` types are currently not permitted in anonymous constants
// (`T op T` / `T op= T` alone would compile; the reference forms do not.)
use derive_ex::derive_ex;
use std::ops::Add;

#[derive(Debug, Clone, PartialEq)]
struct V<const N: usize>([i32; N]);
impl<const N: usize> Add<V<N>> for V<N> { type Output = V<N>; fn add(self, r: V<N>) -> V<N> { &self + &r } }
impl<const N: usize> Add<&V<N>> for V<N> { type Output = V<N>; fn add(self, r: &V<N>) -> V<N> { &self + r } }
impl<const N: usize> Add<V<N>> for &V<N> { type Output = V<N>; fn add(self, r: V<N>) -> V<N> { self + &r } }
impl<const N: usize> Add<&V<N>> for &V<N> {
    type Output = V<N>;
    fn add(self, r: &V<N>) -> V<N> {
        let mut o = self.0;
        for i in 0..N { o[i] += r.0[i]; }
        V(o)
    }
}

#[derive_ex(Add)]
#[derive(Debug, Clone, PartialEq)]
struct S {
    a: V<{ Self::N }>,
}
impl S {
    const N: usize = 2;
}

fn main() {
    let x = S { a: V([1, 2]) };
    let y = S { a: V([10, 20]) };
    let e = S { a: V([11, 22]) };
    assert_eq!(&x + &y, e);
    assert_eq!(x.clone() + &y, e);
    assert_eq!(&x + y.clone(), e);
    assert_eq!(x.clone() + y.clone(), e);
    assert_eq!(x, S { a: V([1, 2]) });
    println!("ok");
}
