// demo2 -- C09, "the user's ... where-clause (including uses of `Self`) carry over".
//
// The annotated impl is one of the four documented forms, `impl Add<&A> for &A`, and its where-clause
// mentions `Self` (`where Self: Marker`).  That is valid Rust: `Self` is `&'_ A`.
//
// EXPECTED (property): `A + A`, `A + &A`, `&A + A` are generated, carry the where-clause over and forward
//   to the user's `&A + &A`; the program prints
//       A(3) A(3) A(3) A(3)
//   (`rustc --cfg handwritten` on this file, with the forwarders written by hand, prints exactly that).
// ACTUAL: COMPILE ERROR.  `expand_self` replaces `Self` by the tokens of the self type, `&A`, whose
//   lifetime is elided; a where-clause is a place where elision is not allowed:
//       error[E0637]: `&` without an explicit lifetime name cannot be used here
//   The same happens with `Self` in `Output`, e.g. `type Output = <Self as Deref>::Target;`
//   ("missing lifetime in associated type"), and with `'_` in the self type (`impl Add<u8> for W<'_> where Self: Tr`).
#![allow(unused_imports)]
use derive_ex::derive_ex;
use std::ops::Add;

#[derive(Clone, Debug, PartialEq)]
struct A(u8);

trait Marker {}
impl Marker for &A {}

#[cfg_attr(not(handwritten), derive_ex(Add))]
impl Add<&A> for &A
where
    Self: Marker,
{
    type Output = A;
    fn add(self, rhs: &A) -> A {
        A(self.0 + rhs.0)
    }
}

#[cfg(handwritten)]
mod by_hand {
    use super::*;
    impl Add<A> for A where for<'x> &'x A: Marker {
        type Output = A;
        fn add(self, rhs: A) -> A { <&A as Add<&A>>::add(&self, &rhs) }
    }
    impl Add<&A> for A where for<'x> &'x A: Marker {
        type Output = A;
        fn add(self, rhs: &A) -> A { <&A as Add<&A>>::add(&self, rhs) }
    }
    impl Add<A> for &A where Self: Marker {
        type Output = A;
        fn add(self, rhs: A) -> A { <&A as Add<&A>>::add(self, &rhs) }
    }
}

fn main() {
    let (a, b) = (A(1), A(2));
    println!("{:?} {:?} {:?} {:?}", a.clone() + b.clone(), a.clone() + &b, &a + b.clone(), &a + &b);
}
