// open: constants of the type cannot be used as patterns (StructuralPartialEq comes only from the standard derive)
// (from the third independent defect hunt, seeded/hunt3/C12/demo3.rs)
// demo3 — a constant of the type used as a pattern.
//
// Expected (C12): `#[derive_ex(Clone, Copy, Debug, PartialEq, Eq)]` without helper attributes is a drop-in for
// `#[derive(Clone, Copy, Debug, PartialEq, Eq)]`: the program compiles and prints `black other / stop other`.
// With the standard derive it does: `#[derive(PartialEq)]` also makes the type "structural" (it implements the
// marker `StructuralPartialEq`), which is what rustc requires of the type of a constant used as a pattern.
//
// Actual: COMPILE ERROR.  The `PartialEq` written by derive_ex is an ordinary impl, the type is not structural,
// and every `match` on a constant of the type is rejected:
//     error: constant of non-structural type `Rgb` in a pattern
//       = `Rgb` must be annotated with `#[derive(PartialEq)]` to be usable in patterns
// (the same for the enum).  Nothing in the documentation says that a type that gets its `PartialEq` from
// derive_ex cannot be matched against constants.
use derive_ex::derive_ex;

#[derive_ex(Clone, Copy, Debug, PartialEq, Eq)]
pub struct Rgb(pub u8, pub u8, pub u8);

pub const BLACK: Rgb = Rgb(0, 0, 0);
pub const WHITE: Rgb = Rgb(255, 255, 255);

#[derive_ex(Clone, Copy, Debug, PartialEq, Eq)]
pub enum Signal {
    Stop,
    Go,
    Code(u8),
}
pub const DEFAULT_SIGNAL: Signal = Signal::Stop;

fn name(c: Rgb) -> &'static str {
    match c {
        BLACK => "black",
        WHITE => "white",
        _ => "other",
    }
}
fn signal(s: Signal) -> &'static str {
    match s {
        DEFAULT_SIGNAL => "stop",
        _ => "other",
    }
}

fn main() {
    println!("{} {} / {} {}", name(Rgb(0, 0, 0)), name(Rgb(1, 2, 3)), signal(Signal::Stop), signal(Signal::Code(1)));
}
